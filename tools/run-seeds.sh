#!/bin/bash
# Applies each seeded change to /repo, runs the check of the seed's property (and, with ALL=1, every claimed check), undoes it.
# usage: tools/run-seeds.sh [seed-dir-names...]   -> writes seeded/RESULTS.tsv
export GOFLAGS=-mod=mod GOPROXY=off
cd /verif
[ -n "$(git -C /repo status --porcelain)" ] && { echo "/repo not clean"; exit 2; }
seeds="$@"; [ -z "$seeds" ] && seeds=$(ls seeded | grep '^C')
out=seeded/RESULTS.tsv; [ -z "$1" ] && : > $out
for s in $seeds; do
  prop=${s%-*}
  git -C /repo apply $( [ -f /verif/seeded/$s/patch.head.diff ] && echo /verif/seeded/$s/patch.head.diff || echo /verif/seeded/$s/patch.diff ) || { echo -e "$s\tpatch-fail" >> $out; continue; }
  props=$prop; [ -n "$ALL" ] && props=$(jq -r '.checks[].property_id' MANIFEST.json)
  for p in $props; do
    if ! jq -e --arg p $p '.checks[]|select(.property_id==$p)' MANIFEST.json >/dev/null; then echo -e "$s\t$p\tnot-claimed\t" >> $out; continue; fi
    log=$(mktemp); VQ_EVIDENCE_DIR=/tmp/vq-seed-evidence bin/vq check $p --tier quick > $log 2>&1; rc=$?
    obl=$(grep -B1 '^VIOLATION' $log | grep -v '^VIOLATION' | grep -v '^--' | sed 's/^ *//' | cut -c1-160 | head -4 | tr '\n' '|')
    echo -e "$s\t$p\texit=$rc\t$obl" >> $out; rm -f $log
  done
  git -C /repo checkout -- . ; git -C /repo clean -fdq
done
rm -rf /tmp/vq-seed-evidence
echo done
