import re,json,os,sys,shutil
pid=sys.argv[1]; rnd=sys.argv[2] if len(sys.argv)>2 else '2'
for k,newk in ([('1','3'),('2','4')] if rnd=='2' else [('1',str(2*int(rnd)-1)),('2',str(2*int(rnd)))]):
    src=f'/tmp/seed{rnd}-{pid}/{k}'
    if not os.path.exists(src+'/patch.diff'): continue
    d=f'/verif/seeded/{pid}-{newk}'; os.makedirs(d,exist_ok=True)
    shutil.copy(src+'/patch.diff',d+'/patch.diff'); shutil.copy(src+'/zz_seed_demo_test.go',d+'/demo_test.go.txt'); shutil.copy(src+'/notes.txt',d+'/notes.txt')
    notes=open(src+'/notes.txt').read()
    m=re.search(r"-run\s+'?\"?([A-Za-z0-9_|^$()]+)",notes)
    run=m.group(1) if m else 'TestZZSeedDemo'
    files=sorted(set(re.findall(r'^\+\+\+ b/(\S+)',open(d+'/patch.diff').read(),re.M)))
    pk=re.search(r'^package (\w+)',open(src+'/zz_seed_demo_test.go').read(),re.M).group(1)
    ddir={'varmq':'.','queues':'internal/queues','helpers':'internal/helpers','linkedlist':'internal/linkedlist','linkedbuffer':'internal/linkedbuffer','pool':'internal/pool','utils':'utils'}.get(pk,'.')
    meta={'demo_dir':ddir,'property':pid,'seed':f'{pid}-{newk}','round':int(rnd),'title':notes.strip().splitlines()[0][:200],'files_changed':files,
      'needs_to_manifest':'see notes.txt (section on what it needs to manifest)',
      'demonstration':'demo_test.go.txt (copy to /repo/%s as zz_seed_demo_test.go); go test -vet=off -run %s -count=1 ./%s'%(ddir,run,ddir),
      'origin':'written by a fresh sub-agent that saw only the property text and a scratch worktree of /repo (HEAD 4b53978); re-confirmed independently'}
    json.dump(meta,open(d+'/meta.json','w'),indent=1)
    print(d,run)
