#!/usr/bin/env python3
"""Builds the seeded-change table of DESIGN.md §9.9 from seeded/RESULTS.tsv and inserts design/as-built.md into DESIGN.md."""
import json, os, re, collections
rows = collections.OrderedDict()
for l in open('/verif/seeded/RESULTS.tsv'):
    f = l.rstrip('\n').split('\t')
    if len(f) >= 3:
        rows[(f[0], f[1])] = (f[2], f[3] if len(f) > 3 else '')
lines = ['| seed | change (file: what) | own check | first failing obligation |', '|---|---|---|---|']
for d in sorted(os.listdir('/verif/seeded')):
    mp = f'/verif/seeded/{d}/meta.json'
    if not os.path.exists(mp):
        continue
    m = json.load(open(mp))
    prop = m['property']
    title = re.sub(r'\s+', ' ', m.get('title', ''))[:110].replace('|', '/')
    files = ','.join(os.path.basename(x) for x in m.get('files_changed', []))
    if m.get('status', '').startswith('superseded'):
        others = sorted(p for (s, p), (rc, _) in rows.items() if s == d and rc == 'exit=1')
        why = m['status'].split(':',1)[1].strip()
        why = (why[:150] + '…') if len(why) > 150 else why
        lines.append(f'| {d} | {files}: {title} | superseded | {why} (caught by {", ".join(others) or "its own check"} before) |')
        continue
    rc, obl = rows.get((d, prop), ('not run', ''))
    first = obl.split('|')[0]
    name = first.split(': ')[0][:90]
    tag = ''
    if 'contract-unbound' in first or 'not generated' in first:
        alt = [x for x in obl.split('|') if x and 'contract-unbound' not in x and 'not generated' not in x]
        if alt:
            name = alt[0].split(': ')[0][:90]
        else:
            tag = ' *(unbound)*'
    res = {'exit=1': 'caught', 'exit=0': '**missed**'}.get(rc, rc)
    lines.append(f'| {d} | {files}: {title} | {res} | `{name}`{tag} |')
table = '\n'.join(lines)
ab = open('/verif/design/as-built.md').read().replace('SEED-TABLE', table)
p = '/verif/DESIGN.md'
s = open(p).read()
B, E = '<!-- AS-BUILT-BEGIN -->', '<!-- AS-BUILT-END -->'
block = B + '\n' + ab + '\n' + E + '\n\n'
if B in s:
    s = s[:s.index(B)] + block + s[s.index(E) + len(E):].lstrip('\n')
else:
    i = s.index('## Appendix A')
    s = s[:i] + block + s[i:]
open(p, 'w').write(s)
print(table)
