#!/usr/bin/env python3
"""Regenerates /verif/MANIFEST.json from the table below (the single place where claims are stated)."""
import json, subprocess, sys

CORE_NOTE = (" The check also covers every function tagged CORE (dispatch chain, lifecycle functions, constructors, built-in queue "
             "operations): a change there that breaks their contracts (a second dispatcher, an unbuffered signal channel, a Purge that keeps entries, "
             "a pool node stopped by a goroutine that does not own it ...) breaks this property too.")
CORE_PROPS = {"C01", "C02", "C03", "C04", "C06", "C09", "C14", "C17", "C18"}

COMMON_NOTE = (
    "Trusted: the vq engine itself (go/ssa -> SMT translation, contract parser; /verif/vq), go/ssa + go/types "
    "(x/tools v0.29.0), the SMT solvers (z3 4.8.12, z3 5.1.0, cvc5 1.0.3; one unsat answer discharges), the primitive "
    "contracts of sync/atomic, sync, time, context, encoding/json and channels (vq/prims.go, vq/chan.go), and the "
    "interface contracts in contracts_iface_verif.go for user-supplied callbacks and adapters. Integers are mathematical with a "
    "no-overflow obligation at every + - * and exact conversions. Every function is verified in SEQ mode: it runs its atomic "
    "sections without interference from other goroutines; ghost state and representation invariants carry what other goroutines "
    "may have done between calls only where the contract says so (rely clauses, channel ghost counters). Interference freedom "
    "itself (DESIGN.md B2/B3) is NOT discharged. Preconditions of the functions under contract are listed in the evidence file; "
    "those of exported entry points are assumptions about the caller."
)

CHECKS = {
    "C01": ("Per-function proof that an accepted job is enqueued exactly once (6 x Add/AddAll: one Enqueue per accepted item, "
            "none for rejected), that Queue/PriorityQueue Dequeue removes exactly the returned item from the abstract multiset, that "
            "processNextJob hands a dequeued job to exactly one pool node (or acknowledges/closes it without dispatch when it is closed), "
            "that the pool goroutine body runs the user function once per received job, and (B2-lite) that a pool node is stopped/cached only by the goroutine "
            "that took it out of the idle list itself (findings G6, G7 in the idle-worker reaper: fixed). The cross-goroutine composition "
            "(exactly-once over the whole history) rests on the ghost multiset/ counters and is not itself a theorem of the tool.",
            "sequential contracts on enqueue/dequeue/dispatch chain; ghost multisets $inQ/$mem, $dispatched counters"),
    "C02": ("Per-function proof that curProcessing is incremented only under the guard curProcessing < concurrency read in the same "
            "dispatcher iteration (goEventLoop$1 guard / guard-fresh asserts), that there is one dispatcher per running worker "
            "($disp ghost: start/Resume/Restart/binders), that config construction keeps concurrency >= 1 and within uint32, and that "
            "TunePool leaves pool size and concurrency consistent.",
            "guard assertions + $disp ghost count in lifecycle contracts; arithmetic contracts on config"),
    "C03": ("Safety half only: every accept path signals the dispatcher after its bookkeeping (signal-after-bookkeeping asserts), "
            "every pool goroutine iteration frees its node and signals, the dispatcher sleeps only when no job is dispatchable "
            "(sleep-only-when-idle assert), Resume/start re-arm the dispatcher, releaseWaiters uses Broadcast (Signal is a different ghost event). Liveness under fair scheduling (the property proper) "
            "is outside the reach of function contracts; claimed as the wake-up discipline obligations, not as termination.",
            "assert-at-anchor obligations on signalling order; no fairness/liveness reasoning"),
    "C04": ("Full functional proof, unbounded: Queue is a FIFO sequence ($lg/$base ghost log) across chunk boundaries and purge; "
            "PriorityQueue over container/heap (GOROOT source verified: up/down/Push/Pop/Init with loop invariants) keeps the heap "
            "order for the lexicographic (priority, insertion index) key, Dequeue returns the minimum (RootMin lemma by strong "
            "induction). Insertion index strictly increases, which makes ties FIFO.",
            "representation invariants RI_Queue / RI_PQ + heap lemmas; std container/heap bodies inlined with caller-side invariants"),
    "C05": ("Per-function proof that job.Close/ errorJob / resultJob Close complete the handle's wait group/response exactly once "
            "on the successful path and not at all when refused, that the pool goroutine body sends the outcome before Close, that group "
            "jobs count down one per item and close the shared response when the count reaches zero (incl. the empty batch, finding F4, fixed). "
            "B2-lite: WgCounter.Done performs its wg.Done() whatever concurrent finishers do between its Load and its update (b2-done), and it reports 'this call finished the last item' only from the value its own atomic decrement returned (b2-last-own).",
            "contracts over WgCounter/Response ghost ($wgdone, channel counters)"),
    "C06": ("Per-function proof of the barrier bodies: WaitUntilFinished returns only on a state with no pending and no processing job "
            "(loop invariant + rely on the condition variable), PauseAndWait/WaitAndStop compose it with the status change, Stop leaves "
            "curProcessing == 0 and an empty pool; releaseWaiters broadcasts after the counters are final; processNextJob releases the waiters "
            "whenever it consumes an entry without dispatching it (wake-consumed; finding F5, fixed), with an in-flight count read after the dequeue; "
            "the broadcast is sent with the condition variable's mutex held (finding G4b, lost wake-up, fixed).",
            "loop invariants over cond-var wait with rely clauses"),
    "C07": ("Per-function proof that each job constructor allocates a fresh response channel / wait counter, that the worker "
            "closures (NewWorker$1 etc.) send exactly the value/err of the user function call on that job's own handle, and that WithSafe "
            "converts a panic of the user function into an error (ensures_on_panic). Stores to variables captured from the enclosing scope by these "
            "closures (which run on several pool goroutines at once) are rejected by a B1 obligation (captured-write).",
            "freshness ($fresh) postconditions + panic-path contracts"),
    "C08": ("Per-function proof that AddAll creates the group with buffer == number of accepted items, each item job sends exactly one "
            "result, the response channel is closed exactly once when the pending count reaches zero (chan obligations: no send on closed, "
            "no double close), including the empty batch; every item gets a job configuration of its own (one id-generator call per item, own-config). B2-lite: with other members of the batch decrementing the counter at any moment, the stream is closed only by the member whose own decrement reached zero (b2-close-last; finding G5, close of closed channel, fixed).",
            "channel ghost state ($open/$sent/$cap) obligations at every send/close"),
    "C09": ("Per-function proof that the dispatcher loop dispatches only when status == running (guard assert in goEventLoop$1 / "
            "processNextJob precondition), that Pause/Stop/Resume/Restart change only status + dispatcher ghost and leave queues untouched "
            "(frame conditions), and that Resume re-arms exactly one dispatcher.",
            "frame obligations + status guards"),
    "C10": ("Per-function proof that Close on a queued job marks it closed so processNextJob skips it (never handed to a pool node), "
            "Purge closes every job returned by Values() and Queue.Values/PriorityQueue.Values return exactly the pending items (loop-invariant proofs over the chunk chain / heap array); Purge empties the abstract queue and resets the counters, queue Close is idempotent on channel ghost state (no double close), "
            "no nil/bounds/closed-channel panic on any path of those functions.",
            "safety obligations (nil, bounds, chan) + abstract-view postconditions"),
    "C11": ("Per-function proof that ack is called only from job.Close after processing (initPoolNode$1 order asserts) or for a job "
            "closed while queued, at most once per job (ack-id cleared/ closed status guard), and that persistent Add enqueues the serialised "
            "job before reporting success. Crash points are not modelled: 'no accepted job lost in a crash' is reduced to ack-after-processing.",
            "order assertions at anchors around IAcknowledgeable.Acknowledge calls"),
    "C12": ("Per-function proof that Json/parseToJob round-trip ID and payload ($jsonrt axiom of encoding/json is trusted), that "
            "persistent/distributed Add pass exactly the bytes of Json() with the configured ID, and that processNextJob on an undecodable "
            "entry reports an error, acknowledges nothing and dispatches nothing (isolation); json.Unmarshal targets must be zero values allocated by the decoding "
            "function itself (json-target-fresh: Unmarshal merges into a reused target).",
            "contracts with trusted encoding/json round-trip axiom"),
    "C14": ("Per-function proof of every lifecycle entry point against the documented state machine: status pre/post pairs for "
            "start/Pause/PauseAndWait/Resume/Stop/WaitAndStop/Restart and the binders (error value and no state change on the refused "
            "transitions; findings F2, F3 fixed), context listener stops the worker for its own generation of the context whatever the status and never for a replaced one; "
            "Restart cancels and replaces the context inside one write-locked section (cancel-locked, rearm-atomic). Single-call contracts: every sequence "
            "follows by composition of contracts. B2-lite: Stop/Restart are additionally proved to end in Stopped/Running when worker.status is changed arbitrarily "
            "by other goroutines during their blocking waits (obligations b2-*); other concurrent lifecycle interleavings are not modelled.",
            "pre/post state-machine contracts on all lifecycle functions"),
    "C15": ("Full functional proof: Manager Register/Unregister keep the item slice and round-robin cursor in range; GetRoundRobinItem "
            "returns item[cursor] and advances modulo count (so k consecutive calls visit all k queues); GetMaxLenItem/GetMinLenItem return an "
            "arg-max/arg-min of Len() over all registered items (slices.MaxFunc/MinFunc bodies inlined with invariants); queueManager.next "
            "dispatches on the configured strategy; every binder registers the queue exactly once (finding F1, fixed).",
            "RI_Manager + quantified postconditions; std slices bodies inlined"),
    "C16": ("Per-function proof that every store to job.status goes through changeStatus / Close with old(status) <= new(status) "
            "in the order created < queued < processing < finished < closed, and that Close ends at closed. The 12 in-memory Add/AddAll paths store Queued BEFORE the job is published with Enqueue "
            "(queued-before-publish; finding G1 - a late Store(queued) rewinding a job that had already run - fixed), Close stores Closed before it releases Wait "
            "(closed-before-release, also in the three group Close functions), Wait returns only through the wait group. Still per call: a handle Close() racing the "
            "dispatcher between its IsClosed() check and its changeStatus(processing) (finding class G2 of DESIGN.md) is not decided.",
            "monotonicity postconditions on all writers of job.status"),
    "C17": ("Per-function proof that Queue/PriorityQueue Len equals the size of the abstract view (never negative, no wrap), "
            "NumPending sums Len over registered queues, metrics counters only increase by one per event and Reset zeroes them, Submitted counts exactly the accepted items of a batch, "
            "curProcessing is incremented once per dispatch and decremented once per completion. 'Exact at rest' is by the counters' "
            "ghost equalities; plus every-instant asserts readCount <= writeCount after each counter store in Queue.Purge/Dequeue "
            "(what the lock-free Len() may observe); other in-flight interleavings are outside SEQ mode.",
            "abstract-view equalities for Len/NumPending; counter ghosts"),
    "C18": ("Per-function proof that the pool list is a well-formed doubly linked list whose length equals the node count ghost, "
            "initPoolNode/freePoolNode/stopAndRemoveAllWorkers/TunePool keep size within [min idle, concurrency] (findings F8, F9 fixed), "
            "the reaper stops only idle nodes above the minimum and only nodes it removed from the list itself, and slices its snapshot within bounds (findings G6, G7, fixed), "
            "Stop stops every node, ticker and listener. Open known finding F6: the reaper "
            "goroutine itself survives Stop/Restart (ranges over ticker.C, never closed) - reported as KNOWN-FINDING, demonstrated on real code.",
            "RI_List + $nodes/$reapers/$listeners ghost counts"),
}

CHECKS["C19"] = ("Lock-discipline contracts (B1): every load/store of a field declared guarded_by in the contract files happens with its lock held "
    "(write mode for stores) on every path of every function of the module that touches such a field; locks acquired are released on every return path; "
    "helpers declared `holds` are only called with the lock held; frozen fields are written only by constructors; the per-job worker closures never store to "
    "captured variables; fields declared `atomic` keep a sync/atomic type. Decided by the executor's held-lock set per path (no solver). This is the lock discipline of the declared fields, not data-race freedom of "
    "all memory: atomics, channel hand-off and 'for all client programs' are outside it. Known finding G10a (Node.Next/Prev) reported as KNOWN-FINDING; G10b fixed.",
    "guarded_by / frozen / holds / concurrent contract clauses; held-lock-set tracking along go/ssa paths")

NA = {
    "C13": "distributed consumers are separate processes sharing an external queue behind IDistributedQueue: exactly-once consumption is a "
           "property of the adapter's Dequeue (user code) and of a multi-process history; no contract on varmq's functions can express or "
           "decide it (the in-process half - one dispatch per dequeued item - is covered under C01/C11).",
}


def main():
    head = subprocess.run(["git", "-C", "/repo", "log", "--format=%H %s"], capture_output=True, text=True).stdout.splitlines()
    hooks = [l.split()[0] for l in head if l.split(" ", 1)[1].startswith("verif:")]
    checks = []
    for pid, (text, tech) in sorted(CHECKS.items()):
        checks.append({
            "property_id": pid,
            "quick_cmd": f"bin/vq check {pid} --tier quick",
            "thorough_cmd": f"bin/vq check {pid} --tier thorough",
            "evidence_file": f"/verif/evidence/{pid}.json",
            "replay_cmd_template": "bin/vq replay {path}",
            "engine": "vq",
            "level_claimed": {
                "category": "proof",
                "text": text + (CORE_NOTE if pid in CORE_PROPS else ""),
                "design_ref": f"DESIGN.md section 3 ({pid}) and section 9 (as built)",
            },
            "level_note": COMMON_NOTE,
            "technique": "contract-based deductive verification: //@ contracts on the real Go functions, VCs generated from go/ssa by vq, "
                         "discharged by z3/cvc5 (" + tech + ")",
        })
    m = {
        "version": 1,
        "setup_cmd": "cd /verif && ./setup.sh",
        "hooks": {
            "guard": "verif",
            "enable": "-tags=verif (contract files are comment-only Go files with //go:build verif; vq loads /repo with that tag)",
            "baseline_off_cmd": "cd /repo && GOFLAGS=-mod=mod GOPROXY=off go test -vet=off -count=1 -timeout 25m ./...",
            "source_commits": hooks,
            "add_only": True,
        },
        "engines": [{
            "name": "vq",
            "path": "/verif/vq",
            "serves_properties": sorted(CHECKS),
            "kind_free_text": "contract-based deductive verifier for Go written here: go/ssa symbolic execution of the real functions "
                              "against //@ contracts, VCs discharged by z3 4.8.12 / z3 5.1.0 / cvc5 1.0.3",
        }],
        "checks": checks,
        "notes": "All checks load /repo's current working tree (go/packages, tag verif) on every run; contracts live in /repo "
                 "(contracts_*_verif.go, comment-only) with a mirror in /verif/contracts/repo used when a file is absent from /repo. "
                 "obligations.lock pins the obligation names that must be generated (a missing one is a violation: vacuity guard). "
                 "known_findings.json lists open genuine defects (F6) and the fixed ones.",
        "not_applicable": [{"property_id": k, "reason": v} for k, v in sorted(NA.items())],
    }
    json.dump(m, open("/verif/MANIFEST.json", "w"), indent=1)
    print("wrote MANIFEST.json:", len(checks), "checks,", len(NA), "not applicable")


if __name__ == "__main__":
    main()
