#!/bin/bash
# usage: confirm-one.sh <seed-dir-name>  -> suite with change x1, demo with change, demo without
export GOFLAGS=-mod=mod GOPROXY=off
s=$1; d=/verif/seeded/$s; prop=${s%-*}
wt=/tmp/cf-$s; rm -rf $wt; git -C /repo worktree add -q --detach $wt HEAD || exit 2
race=""; [ "$prop" = "C19" ] && race="-race"
dd=$(jq -r '.demo_dir // "."' $d/meta.json)
run=$(jq -r .demonstration $d/meta.json | grep -o "\-run [^ ]*" | sed 's/-run //')
cp $d/demo_test.go.txt $wt/$dd/zz_seed_demo_test.go
base=0; for i in 1 2; do (cd $wt && timeout 200 go test $race -vet=off -run "$run" -count=1 -timeout 120s ./$dd >/dev/null 2>&1) && base=$((base+1)); done
rm $wt/$dd/zz_seed_demo_test.go
(cd $wt && git apply $( [ -f $d/patch.head.diff ] && echo $d/patch.head.diff || echo $d/patch.diff )) || { echo "$s patch-fail"; git -C /repo worktree remove --force $wt; exit 1; }
suite=0; (cd $wt && timeout 600 go test -vet=off -count=1 ./... >/dev/null 2>&1) && suite=1
cp $d/demo_test.go.txt $wt/$dd/zz_seed_demo_test.go
fail=0; for i in 1 2; do (cd $wt && timeout 200 go test $race -vet=off -run "$run" -count=1 -timeout 120s ./$dd >/dev/null 2>&1) || fail=$((fail+1)); done
echo "$s run=$run suite_pass_with_change=$suite/1 demo_fail_with_change=$fail/2 demo_pass_without=$base/2"
git -C /repo worktree remove --force $wt
