package varmq

// Lock-discipline findings of the B1 obligations (property C19). Copy into the repository root and run WITH the race detector:
//   go test -race -vet=off -run G10 -count=1 .
// TestFindingG10b... failed on the tree before the fix: commit and passes now; TestKnownFindingG10a... (open known finding) fails now.

import (
	"context"
	"sync"
	"testing"
	"time"

	"github.com/goptics/varmq/internal/linkedlist"
)

// G10b  worker.{errorChan,ctx,cancel,eventLoopSignal} are rewritten by Stop/Restart under w.mx and read without it by
// Errs(), Context(), Stop(), goEventLoop(), goListenToContext(). Run with -race.
func TestFindingG10bWorkerFieldsReadWithoutLock(t *testing.T) {
	w := newWorker(func(j iJob[int]) {}, WithContext(context.Background()))
	if err := w.start(); err != nil {
		t.Fatal(err)
	}
	stop := make(chan struct{})
	var wg sync.WaitGroup
	wg.Add(2)
	go func() {
		defer wg.Done()
		for {
			select {
			case <-stop:
				return
			default:
				_ = w.Errs()
				_ = w.Context()
			}
		}
	}()
	go func() {
		defer wg.Done()
		for {
			select {
			case <-stop:
				return
			default:
				w.Pause()
				w.Resume()
			}
		}
	}()
	for i := 0; i < 50; i++ {
		w.Restart()
		time.Sleep(time.Millisecond)
	}
	close(stop)
	wg.Wait()
	w.Stop()
}

// G10a  Node.Next()/Prev() read the links under the node's own mutex; every writer holds the list's mutex only. Run with -race.
func TestKnownFindingG10aNodeLinksRace(t *testing.T) {
	l := linkedlist.New[int]()
	n := linkedlist.NewNode(1)
	stop := make(chan struct{})
	var wg sync.WaitGroup
	wg.Add(1)
	go func() {
		defer wg.Done()
		for {
			select {
			case <-stop:
				return
			default:
				_ = n.Next()
				_ = n.Prev()
			}
		}
	}()
	for i := 0; i < 2000; i++ {
		l.PushNode(n)
		l.Remove(n)
	}
	close(stop)
	wg.Wait()
}
