package varmq

import (
	"sync/atomic"
	"testing"
	"time"
)

// G6 / G7  varmq.worker.goRemoveIdleWorkers$1#assert:b2-own-stop, #bounds:b2-slice#1 -- the idle-worker reaper against the dispatcher.
// G6: the reaper ignored the result of pool.Remove(node) and stopped + cached a node the dispatcher had just taken (nil dereference in
// NodeSlice within milliseconds on the tree before fix b5fcad1). G7: `nodes[targetIdleWorkers:]` with a snapshot shorter than the length
// read before it (panic "slice bounds out of range [1:0]" within seconds on the tree with only G6 fixed).
// Completion is polled: WaitUntilFinished has a lost-wake-up window of its own (broadcast outside the waiters' mutex) that must not be
// mixed into this demonstration.
func TestFindingG6G7ReaperAgainstDispatcher(t *testing.T) {
	deadline := time.Now().Add(8 * time.Second)
	for round := 0; time.Now().Before(deadline); round++ {
		var ran atomic.Int64
		w := NewWorker(func(j Job[int]) { ran.Add(1) }, WithConcurrency(16), WithIdleWorkerExpiryDuration(20*time.Microsecond))
		q := w.BindQueue()
		total := int64(0)
		for burst := 0; burst < 200; burst++ {
			for i := 0; i < 32; i++ {
				if _, ok := q.Add(i); ok {
					total++
				}
			}
			time.Sleep(50 * time.Microsecond)
		}
		limit := time.Now().Add(3 * time.Second)
		for ran.Load() != total && time.Now().Before(limit) {
			time.Sleep(time.Millisecond)
		}
		if ran.Load() != total {
			t.Fatalf("round %d: only %d of %d accepted jobs ran (pending=%d processing=%d): a job was handed to a node whose goroutine the reaper had stopped",
				round, ran.Load(), total, w.NumPending(), w.NumProcessing())
		}
		for w.NumProcessing() > 0 {
			time.Sleep(time.Millisecond)
		}
		w.Stop()
	}
}

// G4b  varmq.worker.releaseWaiters#assert:broadcast-under-lock -- releaseWaiters broadcast without holding the mutex of the condition
// variable: a WaitUntilFinished caller that has just evaluated "still busy" but has not parked yet missed the broadcast and slept on,
// although nothing was pending and nothing processing any more (failed within seconds on the tree before fix 30fde54).
func TestFindingG4bBroadcastOutsideTheWaitersMutex(t *testing.T) {
	w := NewWorker(func(j Job[int]) {}, WithConcurrency(4))
	q := w.BindQueue()
	defer w.Stop()
	deadline := time.Now().Add(10 * time.Second)
	for round := 0; time.Now().Before(deadline); round++ {
		for i := 0; i < 4; i++ {
			q.Add(i)
		}
		done := make(chan struct{})
		go func() { w.WaitUntilFinished(); close(done) }()
		select {
		case <-done:
		case <-time.After(2 * time.Second):
			t.Fatalf("round %d: WaitUntilFinished still parked after 2s with pending=%d processing=%d", round, w.NumPending(), w.NumProcessing())
		}
	}
}
