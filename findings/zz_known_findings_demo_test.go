package varmq

// Demonstrations of the open known findings (they FAIL on the current tree; see /verif/known_findings.json).
// Run: cp this file into the repository root and `go test -vet=off -run TestKnownFinding -count=1 .`

import (
	"runtime"
	"testing"
	"time"
)

// F6 / F6b  varmq.worker.Stop#post:reapers, varmq.worker.Restart#post:reapers -- the idle-worker reaper goroutine ranges over ticker.C,
// which ticker.Stop() does not close: every start with an idle expiry leaks one goroutine (and Restart of a running worker leaves the old
// ticker running as well).
func TestKnownFindingF6ReaperLeak(t *testing.T) {
	w := NewWorker(func(j Job[int]) {}, WithIdleWorkerExpiryDuration(time.Hour))
	w.BindQueue()
	w.Stop()
	time.Sleep(50 * time.Millisecond)
	base := runtime.NumGoroutine()
	for i := 0; i < 5; i++ {
		if err := w.Restart(); err != nil {
			t.Fatal(err)
		}
		w.Stop()
	}
	time.Sleep(100 * time.Millisecond)
	if got := runtime.NumGoroutine(); got > base {
		t.Fatalf("goroutines grew from %d to %d over 5 Restart/Stop cycles (one leaked reaper per start)", base, got)
	}
}
