package varmq

// Demonstrations of the defects found by the contract obligations (each fails on the pinned tree d800b8a and passes after its fix: commit).
// Run: cp this file into the repository root and `go test -vet=off -run TestFinding -count=1 .`

import (
	"context"
	"testing"
	"time"

	"github.com/goptics/varmq/mocks"
)

// F7  varmq.withSafeConcurrency#post:positive -- n = k*2^32 truncates to 0: a running worker that never dispatches.
func TestFindingF7WithSafeConcurrency(t *testing.T) {
	if got := withSafeConcurrency(1 << 32); got < 1 {
		t.Fatalf("withSafeConcurrency(1<<32) = %d, want >= 1", got)
	}
}

// F8  varmq.worker.numMinIdleWorkers#ovf:*#1 -- concurrency*ratio overflows uint32.
func TestFindingF8NumMinIdleWorkers(t *testing.T) {
	w := newWorker(func(j iJob[int]) {}, WithConcurrency(50_000_000), WithMinIdleWorkerRatio(100))
	if got := w.numMinIdleWorkers(); got != 50_000_000 {
		t.Fatalf("numMinIdleWorkers() = %d, want 50000000", got)
	}
}

// F1  varmq.newPersistentPriorityQueue#post:once -- the adapter is registered twice.
func TestFindingF1DoubleRegister(t *testing.T) {
	w := newWorker(func(j iJob[int]) {})
	newPersistentPriorityQueue(w, mocks.NewMockPersistentPriorityQueue())
	if got := w.queues.Count(); got != 1 {
		t.Fatalf("registered %d times, want 1", got)
	}
}

// F4  varmq.newResultGroupJob#post:empty / newErrorGroupJob#post:empty -- the stream of an empty batch is never closed.
func TestFindingF4EmptyBatchStream(t *testing.T) {
	w := NewResultWorker(func(j Job[int]) (int, error) { return j.Data(), nil })
	q := w.BindQueue()
	defer w.Stop()
	done := make(chan struct{})
	go func() {
		for range q.AddAll(nil).Results() {
		}
		close(done)
	}()
	select {
	case <-done:
	case <-time.After(2 * time.Second):
		t.Fatal("Results() of an empty batch was never closed")
	}
	we := NewErrWorker(func(j Job[int]) error { return nil })
	qe := we.BindQueue()
	defer we.Stop()
	done2 := make(chan struct{})
	go func() {
		for range qe.AddAll(nil).Errs() {
		}
		close(done2)
	}()
	select {
	case <-done2:
	case <-time.After(2 * time.Second):
		t.Fatal("Errs() of an empty batch was never closed")
	}
}

// F9  varmq.worker.TunePool#post:minidle -- shrinking retires idle workers below the configured minimum.
func TestFindingF9TunePoolBelowMinIdle(t *testing.T) {
	block := make(chan struct{})
	w := NewWorker(func(j Job[int]) {
		if j.Data() >= 0 {
			<-block
		}
	}, WithConcurrency(10), WithMinIdleWorkerRatio(50))
	q := w.BindQueue()
	for i := 0; i < 8; i++ {
		q.Add(i)
	}
	if j, ok := q.Add(-1); ok { // a ninth job that returns at once: its pool node goes back to the idle list
		j.Wait()
	}
	deadline := time.Now().Add(2 * time.Second)
	for (w.NumProcessing() != 8 || w.NumIdleWorkers() != 1) && time.Now().Before(deadline) {
		time.Sleep(time.Millisecond)
	}
	before := w.NumIdleWorkers()
	if err := w.TunePool(5); err != nil {
		t.Fatal(err)
	}
	after := w.NumIdleWorkers()
	close(block)
	w.WaitUntilFinished()
	w.Stop()
	// new minimum is max(5*50/100,1) = 2; with fewer than that idle, nothing may be retired
	if before <= 2 && after < before {
		t.Fatalf("TunePool retired idle workers below the minimum: idle %d -> %d (minimum 2)", before, after)
	}
}

// F2  varmq.workerBinder.WithQueue#pre:...@varmq.worker.start -- binding on a paused / stopped worker calls start().
func TestFindingF2BindWhilePausedOrStopped(t *testing.T) {
	w := NewWorker(func(j Job[int]) {})
	w.BindQueue()
	if err := w.Pause(); err != nil {
		t.Fatal(err)
	}
	w.BindQueue()
	if got := w.Status(); got != "Paused" {
		t.Fatalf("binding a queue changed the state of a paused worker to %s", got)
	}
	w.Stop()
	w.BindQueue()
	if got := w.Status(); got != "Stopped" {
		t.Fatalf("binding a queue changed the state of a stopped worker to %s (a worker reporting Running on nil channels)", got)
	}
}

// F3 / F3b  varmq.worker.Restart#pre:...@varmq.worker.start ($armed > 0 ==> stopped) -- a context listener armed by the old context
// stops the restarted worker.
func TestFindingF3RestartWithContext(t *testing.T) {
	for trial := 0; trial < 20; trial++ {
		w := NewWorker(func(j Job[int]) {}, WithContext(context.Background()))
		w.BindQueue()
		if err := w.Restart(); err != nil { // F3: Restart of a running worker cancels the old context
			t.Fatal(err)
		}
		time.Sleep(20 * time.Millisecond)
		if got := w.Status(); got != "Running" {
			t.Fatalf("trial %d: after Restart the worker is %s (stopped by the listener of the replaced context)", trial, got)
		}
		w.Stop()
		if err := w.Restart(); err != nil { // F3b: Stop(); Restart() back to back
			t.Fatal(err)
		}
		time.Sleep(20 * time.Millisecond)
		if got := w.Status(); got != "Running" {
			t.Fatalf("trial %d: after Stop+Restart the worker is %s", trial, got)
		}
		w.Stop()
	}
}

// F5  varmq.worker.processNextJob#post:wake-consumed@C06 -- an entry that is consumed without being dispatched (here: a job cancelled while
// queued) leaves the queue empty with nothing in flight and nobody broadcasts: a caller parked in WaitUntilFinished sleeps on although
// "nothing pending, nothing processing" holds.
func TestFindingF5ConsumedEntryLeavesWaiterParked(t *testing.T) {
	release := make(chan struct{})
	started := make(chan struct{}, 1)
	w := NewWorker(func(j Job[int]) {
		if j.Data() == 1 {
			started <- struct{}{}
			<-release
		}
	}, WithConcurrency(1))
	q := w.BindQueue()
	defer w.Stop()
	q.Add(1)
	<-started // job 1 is in flight
	b, _ := q.Add(2)
	if err := b.Close(); err != nil { // cancelled while queued: stays in the queue as a closed entry
		t.Fatal(err)
	}
	done := make(chan struct{})
	go func() { w.WaitUntilFinished(); close(done) }()
	time.Sleep(100 * time.Millisecond) // the waiter is parked (one job in flight)
	close(release)
	select {
	case <-done:
	case <-time.After(3 * time.Second):
		t.Fatalf("WaitUntilFinished still parked 3s after the last job finished: pending=%d processing=%d", w.NumPending(), w.NumProcessing())
	}
}

// G5  varmq.resultGroupJob.Close#assert:b2-close-last, varmq.errorGroupJob.Close#assert:b2-close-last -- resultGroupJob.Close / errorGroupJob.Close: `wgc.Done(); if wgc.Count() == 0 { Response.Close() }` -- two members of one batch that
// finish together both see the counter at zero after their own decrement and both close the stream: panic "close of closed channel"
// in a pool goroutine (the process dies). Needs two finishers of the same batch between each other's Done() and Count().
func TestFindingG5BatchStreamClosedTwice(t *testing.T) {
	w := NewResultWorker(func(j Job[int]) (int, error) { return j.Data(), nil }, 8)
	q := w.BindQueue()
	deadline := time.Now().Add(8 * time.Second)
	for time.Now().Before(deadline) {
		items := make([]Item[int], 8)
		for i := range items {
			items[i] = Item[int]{Data: i}
		}
		g := q.AddAll(items)
		n := 0
		for range g.Results() {
			n++
		}
		if n != 8 {
			t.Fatalf("got %d results for 8 items", n)
		}
	}
	w.Stop()
}
