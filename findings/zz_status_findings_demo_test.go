package varmq

import (
	"testing"
	"time"

	"github.com/goptics/varmq/internal/queues"
)

// slowReturnQueue is the built-in FIFO queue whose Enqueue returns late: after the item is in the queue it waits (bounded) until the
// test says the job has been processed. Nothing else is changed; a descheduled submitter behaves the same way.
type slowReturnQueue struct {
	*queues.Queue[any]
	processed chan struct{}
}

func (q *slowReturnQueue) Enqueue(item any) bool {
	ok := q.Queue.Enqueue(item)
	select {
	case <-q.processed:
	case <-time.After(2 * time.Second):
	}
	time.Sleep(20 * time.Millisecond) // let the pool goroutine finish Close() after the worker function returned
	return ok
}

// G1  varmq.queue.Add#assert:queued-before-publish -- Add publishes the job to the queue (Enqueue) and only afterwards stores Queued with a
// plain Store. When the dispatcher runs the job to completion in between, the late store rewinds the status: the handle reads "Queued"
// after Wait() has returned, and never becomes Closed again.
func TestFindingG1LateQueuedStoreRewindsStatus(t *testing.T) {
	q := &slowReturnQueue{Queue: queues.NewQueue[any](), processed: make(chan struct{}, 1)}
	w := NewWorker(func(j Job[int]) { q.processed <- struct{}{} })
	bound := w.WithQueue(q)
	defer w.Stop()
	time.Sleep(50 * time.Millisecond) // the start-up signal has been consumed
	// the first Add only wakes the dispatcher AFTER its own bookkeeping, so use a second submission's signal to dispatch the first job:
	// simpler: the dispatcher is woken by the start-up of a helper job added from another goroutine while Add #1 is parked in Enqueue
	go func() {
		time.Sleep(100 * time.Millisecond)
		w.notifyToPullNextJobs()
	}()
	j, ok := bound.Add(1)
	if !ok {
		t.Fatal("Add rejected")
	}
	j.Wait()
	if s := j.Status(); s != "Closed" {
		t.Fatalf("status after Wait() = %q, want \"Closed\" (the job ran and was closed while Add was still returning; the late Store(queued) rewound it)", s)
	}
}
