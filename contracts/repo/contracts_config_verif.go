//go:build verif

// Contracts for config.go and metrics.go of package varmq, checked by /verif (vq). Comment-only file: no executable code.
package varmq

//@ package varmq
//@ type metrics: atomic submitted, completed, successful, failed

// ---------------------------------------------------------------- config.go
// withSafeConcurrency: n < 1 means "number of CPUs"; otherwise n itself -- and never 0 (a worker with limit 0 would never dispatch).
//@ func withSafeConcurrency
//@   props C02 C14 C18
//@   ensures [positive] result >= 1
//@   ensures [exact]    concurrency >= 1 && concurrency <= MaxUint32 ==> result == concurrency

//@ func clampPercentage
//@   props C18
//@   ensures [range] 1 <= result && result <= 100
//@   ensures [exact] percentage >= 1 && percentage <= 100 ==> result == percentage
//@   ensures [low]   percentage == 0 ==> result == 1
//@   ensures [high]  percentage > 100 ==> result == 100

//@ func newConfig
//@   props C02 C14 C15
//@   modifies $alloc
//@   ensures result.concurrency == 1 && result.strategy == RoundRobin && result.jobIdGenerator != nil && result.ctx == nil && result.idleWorkerExpiryDuration == 0 && result.minIdleWorkerRatio == 0

// ---------------------------------------------------------------- metrics.go
//@ func metrics.incSubmitted
//@   props C17
//@   requires m.submitted < MaxUint64
//@   modifies m.submitted
//@   ensures m.submitted == old(m.submitted) + 1
//@ func metrics.incCompleted
//@   props C17
//@   requires m.completed < MaxUint64
//@   modifies m.completed
//@   ensures m.completed == old(m.completed) + 1
//@ func metrics.incSuccessful
//@   props C17
//@   requires m.successful < MaxUint64
//@   modifies m.successful
//@   ensures m.successful == old(m.successful) + 1
//@ func metrics.incFailed
//@   props C17
//@   requires m.failed < MaxUint64
//@   modifies m.failed
//@   ensures m.failed == old(m.failed) + 1
//@ func metrics.Submitted
//@   props C17
//@   ensures result == m.submitted
//@ func metrics.Completed
//@   props C17
//@   ensures result == m.completed
//@ func metrics.Successful
//@   props C17
//@   ensures result == m.successful
//@ func metrics.Failed
//@   props C17
//@   ensures result == m.failed
//@ func metrics.Reset
//@   props C17
//@   modifies m.submitted, m.completed, m.successful, m.failed
//@   ensures m.submitted == 0 && m.completed == 0 && m.successful == 0 && m.failed == 0

// ---------------------------------------------------------------- options
// A well-formed configuration: the limit is at least 1, the idle ratio at most 100, the expiry non-negative, an id generator is present.
//@ pred ConfigOK(c *configs) := c != nil && c.concurrency >= 1 && c.minIdleWorkerRatio <= 100 && c.jobIdGenerator != nil
//@ assumption: every ConfigFunc is one of the library's With* options (the configs struct has only unexported fields, so no other package can write a meaningful one); WithJobIdGenerator and WithIdleWorkerExpiryDuration are given a non-nil function / a non-negative duration

//@ functype ConfigFunc
//@   requires arg0 != nil
//@   modifies $deref(arg0)
//@   ensures  ConfigOK(arg0) || !old(ConfigOK(arg0))

//@ func WithConcurrency$1
//@   props C02 C14
//@   requires c != nil
//@   modifies c.concurrency
//@   ensures c.concurrency >= 1 && ($deref(concurrency) >= 1 && $deref(concurrency) <= MaxUint32 ==> c.concurrency == $deref(concurrency))

//@ func WithMinIdleWorkerRatio$1
//@   props C18
//@   requires c != nil
//@   modifies c.minIdleWorkerRatio
//@   ensures 1 <= c.minIdleWorkerRatio && c.minIdleWorkerRatio <= 100

//@ func WithStrategy$1
//@   props C15
//@   requires c != nil
//@   modifies c.strategy
//@   ensures c.strategy == $deref(s)

//@ func WithContext$1
//@   props C14
//@   requires c != nil
//@   modifies c.ctx
//@   ensures c.ctx == $deref(ctx)

// mergeConfigs / loadConfigs: options are applied in order; a bare int sets the limit through withSafeConcurrency.
//@ func mergeConfigs
//@   props C02 C14
//@   requires c.concurrency >= 1 && c.minIdleWorkerRatio <= 100 && c.jobIdGenerator != nil
//@   modifies $usercalls, $alloc
//@   ensures [ok] result.concurrency >= 1 && result.minIdleWorkerRatio <= 100 && result.jobIdGenerator != nil
//@   loop 1: invariant 0 <= rangeindex + 1 && rangeindex + 1 <= len(cs) && ConfigOK($addr(c))
//@   ghost before call funcvalue: assume config != nil

//@ func loadConfigs
//@   props C02 C14
//@   modifies $usercalls, $alloc
//@   ensures [ok] result.concurrency >= 1 && result.minIdleWorkerRatio <= 100 && result.jobIdGenerator != nil

//@ func newMetrics
//@   props C17
//@   modifies $alloc
//@   ensures result != nil
