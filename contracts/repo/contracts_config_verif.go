//go:build verif

// Contracts for config.go and metrics.go of package varmq, checked by /verif (vq). Comment-only file: no executable code.
package varmq

//@ package varmq

// ---------------------------------------------------------------- config.go
// withSafeConcurrency: n < 1 means "number of CPUs"; otherwise n itself -- and never 0 (a worker with limit 0 would never dispatch).
//@ func withSafeConcurrency
//@   props C02 C14 C18
//@   ensures [positive] result >= 1
//@   ensures [exact]    concurrency >= 1 && concurrency <= MaxUint32 ==> result == concurrency

//@ func clampPercentage
//@   props C18
//@   ensures [range] 1 <= result && result <= 100
//@   ensures [exact] percentage >= 1 && percentage <= 100 ==> result == percentage
//@   ensures [low]   percentage == 0 ==> result == 1
//@   ensures [high]  percentage > 100 ==> result == 100

//@ func newConfig
//@   props C02 C14 C15
//@   modifies $alloc
//@   ensures result.concurrency == 1 && result.strategy == RoundRobin && result.jobIdGenerator != nil && result.ctx == nil && result.idleWorkerExpiryDuration == 0 && result.minIdleWorkerRatio == 0

// ---------------------------------------------------------------- metrics.go
//@ func metrics.incSubmitted
//@   props C17
//@   requires m.submitted < MaxUint64
//@   modifies m.submitted
//@   ensures m.submitted == old(m.submitted) + 1
//@ func metrics.incCompleted
//@   props C17
//@   requires m.completed < MaxUint64
//@   modifies m.completed
//@   ensures m.completed == old(m.completed) + 1
//@ func metrics.incSuccessful
//@   props C17
//@   requires m.successful < MaxUint64
//@   modifies m.successful
//@   ensures m.successful == old(m.successful) + 1
//@ func metrics.incFailed
//@   props C17
//@   requires m.failed < MaxUint64
//@   modifies m.failed
//@   ensures m.failed == old(m.failed) + 1
//@ func metrics.Submitted
//@   props C17
//@   ensures result == m.submitted
//@ func metrics.Completed
//@   props C17
//@   ensures result == m.completed
//@ func metrics.Successful
//@   props C17
//@   ensures result == m.successful
//@ func metrics.Failed
//@   props C17
//@   ensures result == m.failed
//@ func metrics.Reset
//@   props C17
//@   modifies m.submitted, m.completed, m.successful, m.failed
//@   ensures m.submitted == 0 && m.completed == 0 && m.successful == 0 && m.failed == 0
