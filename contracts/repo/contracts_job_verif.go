//go:build verif

// Contracts for job.go and group_job.go of package varmq, checked by /verif (vq). Comment-only file: no executable code.
package varmq

//@ package varmq
//@ type job: frozen id, data
//@ type job: atomic status
// wire format of a stored job (persistent / distributed queues): field names and options are part of the contract
//@ type jobView: jsontag Id "id"
//@ type jobView: jsontag Status "status"
//@ type jobView: jsontag Payload "data"

// ---------------------------------------------------------------- job.go
// A single job's WaitGroup is 1 until the job is closed, then 0 (Wait returns exactly when the job is closed).
// Batch members (created by *.newJob of a group) never use their own WaitGroup: it stays 0 and the batch counter tracks them.
//@ pred RI_job(j *job) := j != nil && 0 <= j.status && j.status <= closed && j.wg == (j.status == closed ? 0 : 1)
//@ pred RI_member(j *job) := j != nil && 0 <= j.status && j.status <= closed && j.wg == 0

//@ func newJob
//@   props C05 C16 C07 C12
//@   modifies $alloc, result.id, result.data, result.status, result.wg, result.queue, result.ackId
//@   ensures [fresh] $fresh(result) && result.id == configs.Id && result.data == data && result.status == created && result.ackId == "" && result.queue == nil
//@   ensures [ri]    RI_job(result)

//@ func job.setAckId
//@   props C11
//@   modifies j.ackId
//@   ensures j.ackId == id
//@ func job.setInternalQueue
//@   props C11
//@   modifies j.queue
//@   ensures j.queue == q
//@ func job.ID
//@   props C07 C12
//@   ensures result == j.id
//@ func job.Data
//@   props C07 C12
//@   ensures result == j.data
//@ func job.IsClosed
//@   props C10 C16
//@   ensures result == (j.status == closed)
//@ func job.changeStatus
//@   props C16
//@   modifies j.status
//@   ensures j.status == s

// Status is the textual form of the status; statusString/statusOf below are inverse on the five statuses (C12, C16).
//@ func job.Status
//@   props C16 C12
//@   ensures [created]    j.status == created ==> result == "Created"
//@   ensures [queued]     j.status == queued ==> result == "Queued"
//@   ensures [processing] j.status == processing ==> result == "Processing"
//@   ensures [finished]   j.status == finished ==> result == "Finished"
//@   ensures [closed]     j.status == closed ==> result == "Closed"
//@   ensures [unknown]    j.status > closed ==> result == "Unknown"

//@ func job.isCloseable
//@   props C10 C05
//@   ensures [processing] j.status == processing ==> result == ErrJobProcessing
//@   ensures [closed]     j.status == closed ==> result == ErrJobAlreadyClosed
//@   ensures [ok]         j.status != processing && j.status != closed ==> result == nil

// ack: at most one Acknowledge, with the job's own ack id, only if it has one, is not closed and came from an acknowledging queue.
//@ func job.ack
//@   props C11 C10
//@   modifies $acks(j.queue), $lastAck(j.queue), $alloc
//@   ensures [none]  (j.ackId == "" || j.status == closed || !$impl(IAcknowledgeable, j.queue)) ==> result == nil && $acks(j.queue) == old($acks(j.queue))
//@   ensures [once]  j.ackId != "" && j.status != closed && $impl(IAcknowledgeable, j.queue) ==> $acks(j.queue) == old($acks(j.queue)) + 1 && $lastAck(j.queue) == j.ackId

// Close: refused while processing or when already closed (nothing changes); otherwise acknowledged (if applicable), marked closed, and
// the waiters are released exactly once. The status is stored before the release.
//@ func job.Close
//@   props C05 C10 C11 C16
//@   requires RI_job(j)
//@   modifies j.status, j.wg, $acks(j.queue), $lastAck(j.queue), $alloc, $wgdone[0]
//@   ensures [processing] old(j.status) == processing ==> result == ErrJobProcessing && j.status == processing && j.wg == old(j.wg) && $acks(j.queue) == old($acks(j.queue))
//@   ensures [closed]     old(j.status) == closed ==> result == ErrJobAlreadyClosed && j.status == closed && j.wg == old(j.wg) && $acks(j.queue) == old($acks(j.queue))
//@   ensures [done]       result == nil ==> old(j.status) != processing && old(j.status) != closed && j.status == closed && j.wg == old(j.wg) - 1 && $wgdone[0] == old($wgdone[0]) + 1
//@   ensures [refused]    result != nil ==> j.status == old(j.status) && j.wg == old(j.wg) && $wgdone[0] == old($wgdone[0])
//@   ensures [succeeds]   old(j.status) != processing && old(j.status) != closed && (j.ackId == "" || !$impl(IAcknowledgeable, j.queue)) ==> result == nil
//@   ensures [ackonce]    $acks(j.queue) == old($acks(j.queue)) || ($acks(j.queue) == old($acks(j.queue)) + 1 && $lastAck(j.queue) == j.ackId && j.ackId != "")
//@   ensures [ri]         RI_job(j)
// C16/C05: whoever is released from Wait must already read Closed: the status is stored before the handle's waiters are released
//@   assert [closed-before-release] before call sync.WaitGroup.Done: j.status == closed

// C16: Wait returns only through the wait group, which Close releases after it has stored Closed (so a returned Wait reads Closed)
//@ func job.Wait
//@   props C05 C16
//@   modifies j.wg
//@   ensures j.wg == 0

// ---------------------------------------------------------------- error / result jobs
// The response channel of a single error/result job is open exactly as long as the job is not closed; it has room for the one outcome.
//@ pred RespOpen(r *helpers.Response, st int) := r != nil && r.ch != nil && (st != closed ==> $open(r.ch)) && (st == closed ==> !$open(r.ch))

//@ func newErrorJob
//@   props C05 C07 C16
//@   modifies $alloc
//@   ensures [fresh] $fresh(result) && result.job.id == configs.Id && result.job.data == data && result.job.status == created && result.job.ackId == "" && result.job.queue == nil
//@   ensures [ri]    RI_job($addr(result.job)) && $fresh(result.Response) && $fresh(result.Response.ch) && RespOpen(result.Response, created) && $cap(result.Response.ch) == 1 && $sent(result.Response.ch) == 0 && $rcvd(result.Response.ch) == 0

//@ func errorJob.sendError
//@   props C07 C05
//@   requires ej.Response != nil && ej.Response.ch != nil && $open(ej.Response.ch)
//@   modifies ej.Response.res, $chan(ej.Response.ch)
//@   ensures [sent] ej.Response.res == err && $sent(ej.Response.ch) == old($sent(ej.Response.ch)) + 1 && $chval(ej.Response.ch, old($sent(ej.Response.ch))) == err

//@ func errorJob.Err
//@   props C07 C05
//@   requires ej.Response != nil && ej.Response.ch != nil
//@   modifies $chan(ej.Response.ch), $open(ej.Response.ch)
//@   ensures [buffered] old($rcvd(ej.Response.ch)) < old($sent(ej.Response.ch)) ==> result == $chval(ej.Response.ch, old($rcvd(ej.Response.ch)))
//@   ensures [closed]   old($rcvd(ej.Response.ch)) == old($sent(ej.Response.ch)) && !old($open(ej.Response.ch)) ==> result == ej.Response.res

// Close: the response channel is closed exactly when the job's Close succeeded (never on a refused Close, never twice).
//@ func errorJob.Close
//@   props C05 C10 C07 C16
//@   requires RI_job($addr(ej.job)) && RespOpen(ej.Response, ej.job.status)
//@   modifies ej.job.status, ej.job.wg, $acks(ej.job.queue), $lastAck(ej.job.queue), $alloc, $wgdone[0], $open(ej.Response.ch)
//@   ensures [done]    result == nil ==> old(ej.job.status) != processing && old(ej.job.status) != closed && ej.job.status == closed && ej.job.wg == old(ej.job.wg) - 1 && !$open(ej.Response.ch)
//@   ensures [refused] result != nil ==> ej.job.status == old(ej.job.status) && ej.job.wg == old(ej.job.wg) && $open(ej.Response.ch) == old($open(ej.Response.ch))
//@   ensures [succeeds] old(ej.job.status) != processing && old(ej.job.status) != closed && (ej.job.ackId == "" || !$impl(IAcknowledgeable, ej.job.queue)) ==> result == nil
//@   ensures [errs]    old(ej.job.status) == processing ==> result == ErrJobProcessing
//@   ensures [errs2]   old(ej.job.status) == closed ==> result == ErrJobAlreadyClosed
//@   ensures [ri]      RI_job($addr(ej.job)) && RespOpen(ej.Response, ej.job.status)

//@ func newResultJob
//@   props C05 C07 C16
//@   modifies $alloc
//@   ensures [fresh] $fresh(result) && result.job.id == configs.Id && result.job.data == data && result.job.status == created && result.job.ackId == "" && result.job.queue == nil
//@   ensures [ri]    RI_job($addr(result.job)) && $fresh(result.Response) && $fresh(result.Response.ch) && RespOpen(result.Response, created) && $cap(result.Response.ch) == 1 && $sent(result.Response.ch) == 0 && $rcvd(result.Response.ch) == 0

// sendResult / sendError deliver exactly one Result tagged with this job's id.
//@ func resultJob.sendResult
//@   props C07 C05 C08
//@   requires rj.Response != nil && rj.Response.ch != nil && $open(rj.Response.ch)
//@   modifies rj.Response.res, $chan(rj.Response.ch)
//@   ensures [sent]  $sent(rj.Response.ch) == old($sent(rj.Response.ch)) + 1
//@   ensures [value] $chval(rj.Response.ch, old($sent(rj.Response.ch))).JobId == rj.job.id && $chval(rj.Response.ch, old($sent(rj.Response.ch))).Data == result && $chval(rj.Response.ch, old($sent(rj.Response.ch))).Err == nil
//@   ensures [store] rj.Response.res.JobId == rj.job.id && rj.Response.res.Data == result && rj.Response.res.Err == nil

//@ func resultJob.sendError
//@   props C07 C05 C08
//@   requires rj.Response != nil && rj.Response.ch != nil && $open(rj.Response.ch)
//@   modifies rj.Response.res, $chan(rj.Response.ch)
//@   ensures [sent]  $sent(rj.Response.ch) == old($sent(rj.Response.ch)) + 1
//@   ensures [value] $chval(rj.Response.ch, old($sent(rj.Response.ch))).JobId == rj.job.id && $chval(rj.Response.ch, old($sent(rj.Response.ch))).Err == err
//@   ensures [store] rj.Response.res.JobId == rj.job.id && rj.Response.res.Err == err

//@ func resultJob.Result
//@   props C07 C05
//@   requires rj.Response != nil && rj.Response.ch != nil
//@   modifies $chan(rj.Response.ch), $open(rj.Response.ch)
//@   ensures [buffered] old($rcvd(rj.Response.ch)) < old($sent(rj.Response.ch)) ==> result0 == $chval(rj.Response.ch, old($rcvd(rj.Response.ch))).Data && result1 == $chval(rj.Response.ch, old($rcvd(rj.Response.ch))).Err
//@   ensures [closed]   old($rcvd(rj.Response.ch)) == old($sent(rj.Response.ch)) && !old($open(rj.Response.ch)) ==> result0 == rj.Response.res.Data && result1 == rj.Response.res.Err

//@ func resultJob.Close
//@   props C05 C10 C07 C16
//@   requires RI_job($addr(rj.job)) && RespOpen(rj.Response, rj.job.status)
//@   modifies rj.job.status, rj.job.wg, $acks(rj.job.queue), $lastAck(rj.job.queue), $alloc, $wgdone[0], $open(rj.Response.ch)
//@   ensures [done]    result == nil ==> old(rj.job.status) != processing && old(rj.job.status) != closed && rj.job.status == closed && rj.job.wg == old(rj.job.wg) - 1 && !$open(rj.Response.ch)
//@   ensures [refused] result != nil ==> rj.job.status == old(rj.job.status) && rj.job.wg == old(rj.job.wg) && $open(rj.Response.ch) == old($open(rj.Response.ch))
//@   ensures [succeeds] old(rj.job.status) != processing && old(rj.job.status) != closed && (rj.job.ackId == "" || !$impl(IAcknowledgeable, rj.job.queue)) ==> result == nil
//@   ensures [errs]    old(rj.job.status) == processing ==> result == ErrJobProcessing
//@   ensures [errs2]   old(rj.job.status) == closed ==> result == ErrJobAlreadyClosed
//@   ensures [ri]      RI_job($addr(rj.job)) && RespOpen(rj.Response, rj.job.status)

// ---------------------------------------------------------------- group_job.go (batches)
// A batch shares one counter (wgc) and, for error/result workers, one response stream; the stream is open while the counter is
// positive. A member that is not yet closed accounts for one unit of the counter.
//@ pred MemberOK(st int, wgc *helpers.WgCounter) := wgc != nil && RI_Wgc(wgc) && (st != closed ==> wgc.count >= 1)
//@ pred StreamOK(r *helpers.Response, wgc *helpers.WgCounter) := r != nil && r.ch != nil && (wgc.count >= 1 ==> $open(r.ch))

//@ func newGroupJob
//@   props C05 C08 C03 C07
//@   requires 0 <= bufferSize && bufferSize <= MaxUint32
//@   modifies $alloc
//@   ensures [fresh] $fresh(result) && result.wgc != nil && $fresh(result.wgc) && result.wgc.count == bufferSize && RI_Wgc(result.wgc)

//@ func groupJob.newJob
//@   props C05 C08 C07 C16
//@   modifies $alloc
//@   ensures [fresh] $fresh(result) && result.wgc == gj.wgc && result.job.data == data && result.job.status == created && result.job.ackId == "" && result.job.queue == nil
//@   ensures [ri]    RI_member($addr(result.job))

//@ func groupJob.NumPending
//@   props C08 C17
//@   requires gj.wgc != nil
//@   ensures result == gj.wgc.count

// Close of a batch member: refused while processing / when closed; otherwise closed and the batch counter drops by exactly one.
//@ func groupJob.Close
//@   assert [closed-before-release] before call helpers.WgCounter.Done: gj.job.status == closed
//@   props C05 C08 C10 C16
//@   requires RI_member($addr(gj.job)) && MemberOK(gj.job.status, gj.wgc)
//@   modifies gj.job.status, gj.wgc.count, gj.wgc.wg, $acks(gj.job.queue), $lastAck(gj.job.queue), $alloc, $wgdone[0]
//@   ensures [processing] old(gj.job.status) == processing ==> result == ErrJobProcessing && gj.job.status == processing && gj.wgc.count == old(gj.wgc.count)
//@   ensures [closed]     old(gj.job.status) == closed ==> result == ErrJobAlreadyClosed && gj.wgc.count == old(gj.wgc.count)
//@   ensures [done]       old(gj.job.status) != processing && old(gj.job.status) != closed ==> result == nil && gj.job.status == closed && gj.wgc.count == old(gj.wgc.count) - 1
//@   ensures [ri]         RI_member($addr(gj.job)) && RI_Wgc(gj.wgc)

//@ func newResultGroupJob
//@   props C08 C05 C03 C07
//@   requires 0 <= bufferSize && bufferSize <= MaxUint32
//@   modifies $alloc
//@   ensures [fresh]  $fresh(result) && result.wgc != nil && $fresh(result.wgc) && result.wgc.count == bufferSize && RI_Wgc(result.wgc)
//@   ensures [stream] result.resultJob.Response != nil && result.resultJob.Response.ch != nil && $fresh(result.resultJob.Response.ch) && $cap(result.resultJob.Response.ch) == bufferSize
//@                      && $sent(result.resultJob.Response.ch) == 0 && $rcvd(result.resultJob.Response.ch) == 0
//@   ensures [open]   bufferSize > 0 ==> $open(result.resultJob.Response.ch)
//@   ensures [empty]  bufferSize == 0 ==> !$open(result.resultJob.Response.ch)

//@ func resultGroupJob.newJob
//@   props C08 C05 C07 C16
//@   modifies $alloc
//@   ensures [fresh] $fresh(result) && result.wgc == gj.wgc && result.resultJob.Response == gj.resultJob.Response && result.resultJob.job.data == data
//@                     && result.resultJob.job.status == created && result.resultJob.job.ackId == "" && result.resultJob.job.queue == nil
//@   ensures [ri]    RI_member($addr(result.resultJob.job))

//@ func resultGroupJob.NumPending
//@   props C08 C17
//@   requires gj.wgc != nil
//@   ensures result == gj.wgc.count

// Close of a result-batch member: as groupJob.Close, and the stream is closed exactly when the counter reaches zero.
//@ func resultGroupJob.Close
//@   assert [closed-before-release] before call helpers.WgCounter.Done: gj.resultJob.job.status == closed
//@   props C05 C08 C10 C16 C05@B2 C08@B2
// B2-lite (G5): the stream is closed only by the member whose own decrement took the batch counter to zero -- a zero read after Done()
// may be another finisher's doing, and then both would close the stream (panic: close of closed channel)
//@   ghost entry: $last := false
//@   ghost after call helpers.WgCounter.Done: $last := gj.wgc.count == 0
//@   assert [b2-close-last] before call helpers.Response.Close: $last
//@   requires RI_member($addr(gj.resultJob.job)) && MemberOK(gj.resultJob.job.status, gj.wgc) && StreamOK(gj.resultJob.Response, gj.wgc)
//@   modifies gj.resultJob.job.status, gj.wgc.count, gj.wgc.wg, $acks(gj.resultJob.job.queue), $lastAck(gj.resultJob.job.queue), $alloc, $wgdone[0], $open(gj.resultJob.Response.ch)
//@   ensures [refused] (old(gj.resultJob.job.status) == processing || old(gj.resultJob.job.status) == closed) ==> result != nil && gj.wgc.count == old(gj.wgc.count)
//@                       && $open(gj.resultJob.Response.ch) == old($open(gj.resultJob.Response.ch)) && gj.resultJob.job.status == old(gj.resultJob.job.status)
//@   ensures [done]    old(gj.resultJob.job.status) != processing && old(gj.resultJob.job.status) != closed ==> result == nil && gj.resultJob.job.status == closed
//@                       && gj.wgc.count == old(gj.wgc.count) - 1
//@   ensures [last]    result == nil ==> ($open(gj.resultJob.Response.ch) <==> gj.wgc.count >= 1)
//@   ensures [ri]      RI_member($addr(gj.resultJob.job)) && RI_Wgc(gj.wgc) && StreamOK(gj.resultJob.Response, gj.wgc)

//@ func newErrorGroupJob
//@   props C08 C05 C03 C07
//@   requires 0 <= bufferSize && bufferSize <= MaxUint32
//@   modifies $alloc
//@   ensures [fresh]  $fresh(result) && result.wgc != nil && $fresh(result.wgc) && result.wgc.count == bufferSize && RI_Wgc(result.wgc)
//@   ensures [stream] result.errorJob.Response != nil && result.errorJob.Response.ch != nil && $fresh(result.errorJob.Response.ch) && $cap(result.errorJob.Response.ch) == bufferSize
//@                      && $sent(result.errorJob.Response.ch) == 0 && $rcvd(result.errorJob.Response.ch) == 0
//@   ensures [open]   bufferSize > 0 ==> $open(result.errorJob.Response.ch)
//@   ensures [empty]  bufferSize == 0 ==> !$open(result.errorJob.Response.ch)

//@ func errorGroupJob.newJob
//@   props C08 C05 C07 C16
//@   modifies $alloc
//@   ensures [fresh] $fresh(result) && result.wgc == gj.wgc && result.errorJob.Response == gj.errorJob.Response && result.errorJob.job.data == data
//@                     && result.errorJob.job.status == created && result.errorJob.job.ackId == "" && result.errorJob.job.queue == nil
//@   ensures [ri]    RI_member($addr(result.errorJob.job))

//@ func errorGroupJob.NumPending
//@   props C08 C17
//@   requires gj.wgc != nil
//@   ensures result == gj.wgc.count

//@ func errorGroupJob.Close
//@   assert [closed-before-release] before call helpers.WgCounter.Done: gj.errorJob.job.status == closed
//@   props C05 C08 C10 C16 C05@B2 C08@B2
// B2-lite (G5): the stream is closed only by the member whose own decrement took the batch counter to zero -- a zero read after Done()
// may be another finisher's doing, and then both would close the stream (panic: close of closed channel)
//@   ghost entry: $last := false
//@   ghost after call helpers.WgCounter.Done: $last := gj.wgc.count == 0
//@   assert [b2-close-last] before call helpers.Response.Close: $last
//@   requires RI_member($addr(gj.errorJob.job)) && MemberOK(gj.errorJob.job.status, gj.wgc) && StreamOK(gj.errorJob.Response, gj.wgc)
//@   modifies gj.errorJob.job.status, gj.wgc.count, gj.wgc.wg, $acks(gj.errorJob.job.queue), $lastAck(gj.errorJob.job.queue), $alloc, $wgdone[0], $open(gj.errorJob.Response.ch)
//@   ensures [refused] (old(gj.errorJob.job.status) == processing || old(gj.errorJob.job.status) == closed) ==> result != nil && gj.wgc.count == old(gj.wgc.count)
//@                       && $open(gj.errorJob.Response.ch) == old($open(gj.errorJob.Response.ch)) && gj.errorJob.job.status == old(gj.errorJob.job.status)
//@   ensures [done]    old(gj.errorJob.job.status) != processing && old(gj.errorJob.job.status) != closed ==> result == nil && gj.errorJob.job.status == closed
//@                       && gj.wgc.count == old(gj.wgc.count) - 1
//@   ensures [last]    result == nil ==> ($open(gj.errorJob.Response.ch) <==> gj.wgc.count >= 1)
//@   ensures [ri]      RI_member($addr(gj.errorJob.job)) && RI_Wgc(gj.wgc) && StreamOK(gj.errorJob.Response, gj.wgc)

// ---------------------------------------------------------------- persistence (C12): Json / parseToJob
// Json encodes (id, status text, payload); what can be decoded from the bytes is exactly that (payload: its JSON round trip).
//@ func job.Json
//@   props C12
//@   requires 0 <= j.status && j.status <= closed
//@   modifies $alloc
//@   ensures [id]      result1 == nil ==> $dec(result0, string, "varmq.jobView.Id") == j.id
//@   ensures [payload] result1 == nil ==> $dec(result0, T, "varmq.jobView.Payload") == $jsonrt(T, j.data)
//@   ensures [status]  result1 == nil ==> (j.status == created ==> $dec(result0, string, "varmq.jobView.Status") == "Created")
//@                       && (j.status == queued ==> $dec(result0, string, "varmq.jobView.Status") == "Queued")
//@                       && (j.status == processing ==> $dec(result0, string, "varmq.jobView.Status") == "Processing")
//@                       && (j.status == finished ==> $dec(result0, string, "varmq.jobView.Status") == "Finished")
//@                       && (j.status == closed ==> $dec(result0, string, "varmq.jobView.Status") == "Closed")
//@   ensures [error]   result1 != nil ==> len(result0) == 0

// parseToJob: an undecodable entry (or an unknown status text) is an error and yields no job; otherwise a fresh job with the decoded id and
// payload and the status named by the status text.
//@ func parseToJob
//@   props C12 C05 C16
//@   modifies $alloc
//@   ensures [error]  result1 != nil ==> result0 == nil
//@   ensures [job]    result1 == nil ==> $typeof(result0) == $tid(*job) && $fresh($ptrof(result0))
//@   ensures [fields] result1 == nil ==> $as(*job, result0).id == $dec(data, string, "varmq.jobView.Id") && $as(*job, result0).data == $dec(data, T, "varmq.jobView.Payload")
//@                       && $as(*job, result0).ackId == "" && $as(*job, result0).queue == nil
//@   ensures [status] result1 == nil ==> ($dec(data, string, "varmq.jobView.Status") == "Created" ==> $as(*job, result0).status == created)
//@                       && ($dec(data, string, "varmq.jobView.Status") == "Queued" ==> $as(*job, result0).status == queued)
//@                       && ($dec(data, string, "varmq.jobView.Status") == "Processing" ==> $as(*job, result0).status == processing)
//@                       && ($dec(data, string, "varmq.jobView.Status") == "Finished" ==> $as(*job, result0).status == finished)
//@                       && ($dec(data, string, "varmq.jobView.Status") == "Closed" ==> $as(*job, result0).status == closed)
//@   ensures [known]  result1 == nil ==> 0 <= $as(*job, result0).status && $as(*job, result0).status <= closed && $as(*job, result0).wg == 1
