//go:build verif

// Contracts for job.go and group_job.go of package varmq, checked by /verif (vq). Comment-only file: no executable code.
package varmq

//@ package varmq

// ---------------------------------------------------------------- job.go
// A single job's WaitGroup is 1 until the job is closed, then 0 (Wait returns exactly when the job is closed).
// Batch members (created by *.newJob of a group) never use their own WaitGroup: it stays 0 and the batch counter tracks them.
//@ pred RI_job(j *job) := j != nil && 0 <= j.status && j.status <= closed && j.wg == (j.status == closed ? 0 : 1)
//@ pred RI_member(j *job) := j != nil && 0 <= j.status && j.status <= closed && j.wg == 0

//@ func newJob
//@   props C05 C16 C07 C12
//@   modifies $alloc, result.id, result.data, result.status, result.wg, result.queue, result.ackId
//@   ensures [fresh] $fresh(result) && result.id == configs.Id && result.data == data && result.status == created && result.ackId == "" && result.queue == nil
//@   ensures [ri]    RI_job(result)

//@ func job.setAckId
//@   props C11
//@   modifies j.ackId
//@   ensures j.ackId == id
//@ func job.setInternalQueue
//@   props C11
//@   modifies j.queue
//@   ensures j.queue == q
//@ func job.ID
//@   props C07 C12
//@   ensures result == j.id
//@ func job.Data
//@   props C07 C12
//@   ensures result == j.data
//@ func job.IsClosed
//@   props C10 C16
//@   ensures result == (j.status == closed)
//@ func job.changeStatus
//@   props C16
//@   modifies j.status
//@   ensures j.status == s

// Status is the textual form of the status; statusString/statusOf below are inverse on the five statuses (C12, C16).
//@ func job.Status
//@   props C16 C12
//@   ensures [created]    j.status == created ==> result == "Created"
//@   ensures [queued]     j.status == queued ==> result == "Queued"
//@   ensures [processing] j.status == processing ==> result == "Processing"
//@   ensures [finished]   j.status == finished ==> result == "Finished"
//@   ensures [closed]     j.status == closed ==> result == "Closed"
//@   ensures [unknown]    j.status > closed ==> result == "Unknown"

//@ func job.isCloseable
//@   props C10 C05
//@   ensures [processing] j.status == processing ==> result == ErrJobProcessing
//@   ensures [closed]     j.status == closed ==> result == ErrJobAlreadyClosed
//@   ensures [ok]         j.status != processing && j.status != closed ==> result == nil

// ack: at most one Acknowledge, with the job's own ack id, only if it has one, is not closed and came from an acknowledging queue.
//@ func job.ack
//@   props C11 C10
//@   modifies $acks(j.queue), $lastAck(j.queue), $alloc
//@   ensures [none]  (j.ackId == "" || j.status == closed || !$impl(IAcknowledgeable, j.queue)) ==> result == nil && $acks(j.queue) == old($acks(j.queue))
//@   ensures [once]  j.ackId != "" && j.status != closed && $impl(IAcknowledgeable, j.queue) ==> $acks(j.queue) == old($acks(j.queue)) + 1 && $lastAck(j.queue) == j.ackId

// Close: refused while processing or when already closed (nothing changes); otherwise acknowledged (if applicable), marked closed, and
// the waiters are released exactly once. The status is stored before the release.
//@ func job.Close
//@   props C05 C10 C11 C16
//@   requires RI_job(j)
//@   modifies j.status, j.wg, $acks(j.queue), $lastAck(j.queue), $alloc, $wgdone[0]
//@   ensures [processing] old(j.status) == processing ==> result == ErrJobProcessing && j.status == processing && j.wg == old(j.wg) && $acks(j.queue) == old($acks(j.queue))
//@   ensures [closed]     old(j.status) == closed ==> result == ErrJobAlreadyClosed && j.status == closed && j.wg == old(j.wg) && $acks(j.queue) == old($acks(j.queue))
//@   ensures [done]       result == nil ==> old(j.status) != processing && old(j.status) != closed && j.status == closed && j.wg == old(j.wg) - 1 && $wgdone[0] == old($wgdone[0]) + 1
//@   ensures [refused]    result != nil ==> j.status == old(j.status) && j.wg == old(j.wg) && $wgdone[0] == old($wgdone[0])
//@   ensures [ackonce]    $acks(j.queue) == old($acks(j.queue)) || ($acks(j.queue) == old($acks(j.queue)) + 1 && $lastAck(j.queue) == j.ackId && j.ackId != "")
//@   ensures [ri]         RI_job(j)

//@ func job.Wait
//@   props C05
//@   modifies j.wg
//@   ensures j.wg == 0

// ---------------------------------------------------------------- error / result jobs
// The response channel of a single error/result job is open exactly as long as the job is not closed; it has room for the one outcome.
//@ pred RespOpen(r *helpers.Response, st int) := r != nil && r.ch != nil && (st != closed ==> $open(r.ch)) && (st == closed ==> !$open(r.ch))

//@ func newErrorJob
//@   props C05 C07 C16
//@   modifies $alloc
//@   ensures [fresh] $fresh(result) && result.job.id == configs.Id && result.job.data == data && result.job.status == created && result.job.ackId == "" && result.job.queue == nil
//@   ensures [ri]    RI_job($addr(result.job)) && RespOpen(result.Response, created) && $cap(result.Response.ch) == 1 && $sent(result.Response.ch) == 0 && $rcvd(result.Response.ch) == 0

//@ func errorJob.sendError
//@   props C07 C05
//@   requires ej.Response != nil && ej.Response.ch != nil && $open(ej.Response.ch)
//@   modifies ej.Response.res, $chan(ej.Response.ch)
//@   ensures [sent] ej.Response.res == err && $sent(ej.Response.ch) == old($sent(ej.Response.ch)) + 1 && $chval(ej.Response.ch, old($sent(ej.Response.ch))) == err

//@ func errorJob.Err
//@   props C07 C05
//@   requires ej.Response != nil && ej.Response.ch != nil
//@   modifies $chan(ej.Response.ch), $open(ej.Response.ch)
//@   ensures [buffered] old($rcvd(ej.Response.ch)) < old($sent(ej.Response.ch)) ==> result == $chval(ej.Response.ch, old($rcvd(ej.Response.ch)))
//@   ensures [closed]   old($rcvd(ej.Response.ch)) == old($sent(ej.Response.ch)) && !old($open(ej.Response.ch)) ==> result == ej.Response.res

// Close: the response channel is closed exactly when the job's Close succeeded (never on a refused Close, never twice).
//@ func errorJob.Close
//@   props C05 C10 C07 C16
//@   requires RI_job($addr(ej.job)) && RespOpen(ej.Response, ej.job.status)
//@   modifies ej.job.status, ej.job.wg, $acks(ej.job.queue), $lastAck(ej.job.queue), $alloc, $wgdone[0], $open(ej.Response.ch)
//@   ensures [done]    result == nil ==> old(ej.job.status) != processing && old(ej.job.status) != closed && ej.job.status == closed && ej.job.wg == old(ej.job.wg) - 1 && !$open(ej.Response.ch)
//@   ensures [refused] result != nil ==> ej.job.status == old(ej.job.status) && ej.job.wg == old(ej.job.wg) && $open(ej.Response.ch) == old($open(ej.Response.ch))
//@   ensures [errs]    old(ej.job.status) == processing ==> result == ErrJobProcessing
//@   ensures [errs2]   old(ej.job.status) == closed ==> result == ErrJobAlreadyClosed
//@   ensures [ri]      RI_job($addr(ej.job)) && RespOpen(ej.Response, ej.job.status)

//@ func newResultJob
//@   props C05 C07 C16
//@   modifies $alloc
//@   ensures [fresh] $fresh(result) && result.job.id == configs.Id && result.job.data == data && result.job.status == created && result.job.ackId == "" && result.job.queue == nil
//@   ensures [ri]    RI_job($addr(result.job)) && RespOpen(result.Response, created) && $cap(result.Response.ch) == 1 && $sent(result.Response.ch) == 0 && $rcvd(result.Response.ch) == 0

// sendResult / sendError deliver exactly one Result tagged with this job's id.
//@ func resultJob.sendResult
//@   props C07 C05 C08
//@   requires rj.Response != nil && rj.Response.ch != nil && $open(rj.Response.ch)
//@   modifies rj.Response.res, $chan(rj.Response.ch)
//@   ensures [sent]  $sent(rj.Response.ch) == old($sent(rj.Response.ch)) + 1
//@   ensures [value] $chval(rj.Response.ch, old($sent(rj.Response.ch))).JobId == rj.job.id && $chval(rj.Response.ch, old($sent(rj.Response.ch))).Data == result && $chval(rj.Response.ch, old($sent(rj.Response.ch))).Err == nil
//@   ensures [store] rj.Response.res.JobId == rj.job.id && rj.Response.res.Data == result && rj.Response.res.Err == nil

//@ func resultJob.sendError
//@   props C07 C05 C08
//@   requires rj.Response != nil && rj.Response.ch != nil && $open(rj.Response.ch)
//@   modifies rj.Response.res, $chan(rj.Response.ch)
//@   ensures [sent]  $sent(rj.Response.ch) == old($sent(rj.Response.ch)) + 1
//@   ensures [value] $chval(rj.Response.ch, old($sent(rj.Response.ch))).JobId == rj.job.id && $chval(rj.Response.ch, old($sent(rj.Response.ch))).Err == err
//@   ensures [store] rj.Response.res.JobId == rj.job.id && rj.Response.res.Err == err

//@ func resultJob.Result
//@   props C07 C05
//@   requires rj.Response != nil && rj.Response.ch != nil
//@   modifies $chan(rj.Response.ch), $open(rj.Response.ch)
//@   ensures [buffered] old($rcvd(rj.Response.ch)) < old($sent(rj.Response.ch)) ==> result0 == $chval(rj.Response.ch, old($rcvd(rj.Response.ch))).Data && result1 == $chval(rj.Response.ch, old($rcvd(rj.Response.ch))).Err
//@   ensures [closed]   old($rcvd(rj.Response.ch)) == old($sent(rj.Response.ch)) && !old($open(rj.Response.ch)) ==> result0 == rj.Response.res.Data && result1 == rj.Response.res.Err

//@ func resultJob.Close
//@   props C05 C10 C07 C16
//@   requires RI_job($addr(rj.job)) && RespOpen(rj.Response, rj.job.status)
//@   modifies rj.job.status, rj.job.wg, $acks(rj.job.queue), $lastAck(rj.job.queue), $alloc, $wgdone[0], $open(rj.Response.ch)
//@   ensures [done]    result == nil ==> old(rj.job.status) != processing && old(rj.job.status) != closed && rj.job.status == closed && rj.job.wg == old(rj.job.wg) - 1 && !$open(rj.Response.ch)
//@   ensures [refused] result != nil ==> rj.job.status == old(rj.job.status) && rj.job.wg == old(rj.job.wg) && $open(rj.Response.ch) == old($open(rj.Response.ch))
//@   ensures [errs]    old(rj.job.status) == processing ==> result == ErrJobProcessing
//@   ensures [errs2]   old(rj.job.status) == closed ==> result == ErrJobAlreadyClosed
//@   ensures [ri]      RI_job($addr(rj.job)) && RespOpen(rj.Response, rj.job.status)
