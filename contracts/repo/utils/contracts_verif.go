//go:build verif

// Contracts for package utils, checked by /verif (vq). Comment-only file: no executable code.
package utils

//@ package utils

//@ func Cpus
//@   props C02 C14
//@   ensures result >= 1

// SelectError returns the first non-nil error, nil if there is none.
//@ func SelectError
//@   props C07
//@   ensures [first] forall k int :: 0 <= k && k < len(errs) && errs[k] != nil && (forall m int :: 0 <= m && m < k ==> errs[m] == nil) ==> result == errs[k]
//@   ensures [none]  (forall k int :: 0 <= k && k < len(errs) ==> errs[k] == nil) ==> result == nil
//@   ensures [some]  result != nil ==> exists k int :: 0 <= k && k < len(errs) && result == errs[k]
//@   loop 1: invariant 0 <= rangeindex + 1 && rangeindex + 1 <= len(errs) && (forall m int :: 0 <= m && m <= rangeindex ==> errs[m] == nil)

// WithSafe contains a panic of fn and reports it as an error. $panicked is the ghost "fn panicked" flag of this execution.
//@ func WithSafe
//@   props C07
//@   contains_panics
//@   requires fn != nil
//@   modifies $usercalls, $alloc
//@   ensures [normal] !$panicked ==> result == nil
//@   ensures [panic]  $panicked ==> result != nil
//@   ensures [once]   $usercalls == old($usercalls) + 1
