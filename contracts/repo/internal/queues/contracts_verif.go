//go:build verif

// Contracts for package queues, checked by /verif (vq). Comment-only file: no executable code.
package queues

//@ package queues

// ---------------------------------------------------------------- queue.go
// Abstract state of a Queue: the acceptance log $lg (since the last purge); the queue's view is $lg[readCount .. writeCount).
// $base[c] is the absolute log index of slot 0 of chunk c, $inQ[c] says that c belongs to the chain.
//@ type Queue: ghost $lg (Array Int TP_T)
//@ type Queue: ghost $base (Array Int Int)
//@ type Queue: ghost $inQ (Array Int Bool)
//@ type Queue: guarded_by mx: readChunk, writeChunk
//@ type Queue: atomic writeCount, readCount, closed
//@ type PriorityQueue: atomic closed
//@ assumption: fewer than 2^64-1 items are ever written to one Queue between two purges (writeCount does not wrap)

//@ func NewQueue
//@   props C04 C01 C17 CORE
//@   modifies $alloc
//@   ensures [fresh] $fresh(result)
//@   ensures [empty] result.readCount == 0 && result.writeCount == 0 && !result.closed
//@   ensures [ri]    @RI_Queue(result)
//@   ghost at return: result.$inQ := $store($emptyset(), result.readChunk, true)
//@   ghost at return: result.$base[result.readChunk] := 0

//@ func Queue.Len
//@   props C17 C04 CORE
//@   requires q.readCount <= q.writeCount && q.writeCount - q.readCount <= MaxInt
//@   ensures [len] result == q.writeCount - q.readCount && result >= 0

//@ func Queue.Enqueue
//@   props C04 C01 C10 C17 CORE
//@   requires @RI_Queue(q) && q.writeCount < MaxUint64
//@   modifies $alloc, q.writeChunk, q.writeCount, q.$lg, q.$base, q.$inQ,
//@            linkedbuffer.Chunk.Data, linkedbuffer.Chunk.NextWriteIndex, linkedbuffer.Chunk.NextReadIndex, linkedbuffer.Chunk.Next, linkedbuffer.Chunk.Data[**]
//@   ensures [ri]     @RI_Queue(q)
//@   ensures [reject] (old(q.closed) || !$isT(T, item)) ==> !result && q.writeCount == old(q.writeCount) && q.$lg == old(q.$lg)
//@   ensures [accept] (!old(q.closed) && $isT(T, item)) ==> result && q.writeCount == old(q.writeCount) + 1
//@                      && q.$lg == $store(old(q.$lg), old(q.writeCount), $asT(T, item))
//@   ensures [frame]  q.readCount == old(q.readCount) && q.closed == old(q.closed) && q.maxCapacity == old(q.maxCapacity)
//@   unreachable return#5
//@   ghost after call linkedbuffer.NewChunk#1: q.$base[result] := q.$base[q.writeChunk] + cap(q.writeChunk.Data)
//@   ghost after call linkedbuffer.NewChunk#1: q.$inQ[result] := true
//@   ghost after call sync/atomic.Uint64.Add: q.$lg[q.writeCount - 1] := typedItem

//@ func Queue.Dequeue
//@   props C04 C01 C10 C17 CORE
//@   requires @RI_Queue(q)
//@   modifies q.readChunk, q.readCount, q.$inQ, linkedbuffer.Chunk.NextReadIndex, linkedbuffer.Chunk.Data[**]
//@   ensures [ri]    @RI_Queue(q)
//@   ensures [item]  old(q.readCount) <  q.writeCount ==> result1 && result0 == $box(T, old(q.$lg)[old(q.readCount)]) && q.readCount == old(q.readCount) + 1
//@   ensures [empty] old(q.readCount) == q.writeCount ==> !result1 && result0 == $box(T, zero(T)) && q.readCount == old(q.readCount)
//@   ensures [frame] q.writeCount == old(q.writeCount) && q.$lg == old(q.$lg) && q.closed == old(q.closed)
//@   ghost after store readChunk: q.$inQ[old(q.readChunk)] := false
//@   assert [instant] after call sync/atomic.Uint64.Add: q.readCount <= q.writeCount

// Values: a snapshot of exactly the pending items, oldest first (what Purge of the bound queue closes, job by job).
//@ func Queue.Values
//@   props C10 C04
//@   requires @RI_Queue(q) && q.writeCount - q.readCount <= MaxInt
//@   modifies $alloc
//@   ensures [all]   len(result) == q.writeCount - q.readCount
//@   ensures [items] forall k int :: 0 <= k && k < len(result) ==> result[k] == $box(T, q.$lg[q.readCount + k])
//@   loop 1: invariant [fresh] $fresh(arr(values))
//@   loop 1: invariant [chain] chunk == nil || q.$inQ[chunk]
//@   loop 1: invariant [count] len(values) == (chunk == nil ? q.writeCount : q.$base[chunk] + chunk.NextReadIndex) - q.readCount
//@   loop 1: invariant [items] forall k int :: 0 <= k && k < len(values) ==> values[k] == $box(T, q.$lg[q.readCount + k])
//@   loop 2: invariant [fresh] $fresh(arr(values))
//@   loop 2: invariant [chain] chunk != nil && q.$inQ[chunk] && chunk.NextReadIndex <= i && i <= chunk.NextWriteIndex
//@   loop 2: invariant [count] len(values) == q.$base[chunk] + i - q.readCount
//@   loop 2: invariant [items] forall k int :: 0 <= k && k < len(values) ==> values[k] == $box(T, q.$lg[q.readCount + k])

//@ func Queue.Purge
//@   props C04 C10 C17 CORE
//@   modifies $alloc, q.readChunk, q.writeChunk, q.readCount, q.writeCount, q.$lg, q.$base, q.$inQ,
//@            linkedbuffer.Chunk.Data, linkedbuffer.Chunk.NextWriteIndex, linkedbuffer.Chunk.NextReadIndex, linkedbuffer.Chunk.Next, linkedbuffer.Chunk.Data[**]
//@   requires q.maxCapacity >= 1 && q.maxCapacity <= 4611686018427387904
//@   ensures [ri]    @RI_Queue(q)
//@   ensures [empty] q.readCount == 0 && q.writeCount == 0
//@   ensures [frame] q.closed == old(q.closed) && q.maxCapacity == old(q.maxCapacity)
// C17, every instant: the lock-free reader Len() must never observe readCount > writeCount (it would report a wrapped, negative length)
//@   requires [counters] q.readCount <= q.writeCount
//@   assert [instant-r] after store readCount: q.readCount <= q.writeCount
//@   assert [instant-w] after store writeCount: q.readCount <= q.writeCount
//@   ghost at return: q.$inQ := $store($emptyset(), q.readChunk, true)
//@   ghost at return: q.$base[q.readChunk] := 0

//@ func Queue.Close
//@   props C10
//@   modifies q.closed
//@   ensures [closed] result == nil && q.closed

// ---------------------------------------------------------------- heap.go / priority.go
// An entry's fields are written once, when PriorityQueue.Enqueue creates it.
//@ type enqItem: immutable Value, Priority, Index
// Ghost membership view of a heapQueue: $mem = the set of entries in items, $idx = the slot of each entry.
//@ type heapQueue: ghost $mem (Array Int Bool)
//@ type heapQueue: ghost $idx (Array Int Int)
//@ type PriorityQueue: guarded_by mx: insertionCount
//@ type heapQueue: guarded_by any queues.PriorityQueue.mx: items
//@ pred HQ(pq *heapQueue) := pq != nil && @HWF($elems(pq.items), len(pq.items), pq.$mem, pq.$idx) && !(pq.$mem[nil])

// heapQueue.Less is a strict weak order (what container/heap needs) and total on entries with distinct Index (ties are decided).
//@ lemma hlt_irreflexive(x Int)
//@   props C04
//@   ensures !@hlt(x, x)
//@ lemma hlt_transitive(x Int, y Int, z Int)
//@   props C04
//@   requires @hlt(x, y) && @hlt(y, z)
//@   ensures @hlt(x, z)
//@ lemma hlt_negtransitive(x Int, y Int, z Int)
//@   props C04
//@   requires !@hlt(x, y) && !@hlt(y, z)
//@   ensures !@hlt(x, z)

//@ func heapQueue.Len
//@   holds any queues.PriorityQueue.mx r
//@   props C04 C17
//@   ensures result == len(pq.items)

//@ func heapQueue.Less
//@   holds any queues.PriorityQueue.mx r
//@   props C04
//@   requires HQ(pq) && 0 <= i && i < len(pq.items) && 0 <= j && j < len(pq.items)
//@   ensures [order] result == @hlt(pq.items[i], pq.items[j])
//@   ensures [lex]   result == (pq.items[i].Priority < pq.items[j].Priority || (pq.items[i].Priority == pq.items[j].Priority && pq.items[i].Index < pq.items[j].Index))

//@ func heapQueue.Swap
//@   holds any queues.PriorityQueue.mx
//@   props C04
//@   requires HQ(pq) && 0 <= i && i < len(pq.items) && 0 <= j && j < len(pq.items)
//@   modifies pq.items[*], pq.$idx
//@   ensures [swap] $elems(pq.items) == $store($store(old($elems(pq.items)), i, old(pq.items[j])), j, old(pq.items[i]))
//@   ensures [hq]   HQ(pq) && len(pq.items) == old(len(pq.items))
//@   ghost at return: pq.$idx := $store($store(old(pq.$idx), old(pq.items[j]), i), old(pq.items[i]), j)

//@ func heapQueue.Push
//@   holds any queues.PriorityQueue.mx
//@   props C04
//@   requires HQ(pq) && $typeof(x) == $tid(*enqItem) && $ptrof(x) != nil && !(pq.$mem[$ptrof(x)]) && len(pq.items) < MaxInt
//@   modifies pq.items, pq.items[**], pq.$mem, pq.$idx, $alloc
//@   ensures [len]  len(pq.items) == old(len(pq.items)) + 1 && pq.items[old(len(pq.items))] == $ptrof(x)
//@   ensures [kept] forall k int :: 0 <= k && k < old(len(pq.items)) ==> pq.items[k] == old(pq.items[k])
//@   ensures [mem]  pq.$mem == $store(old(pq.$mem), $ptrof(x), true)
//@   ensures [hq]   HQ(pq)
//@   ghost at return: pq.$mem[$ptrof(x)] := true
//@   ghost at return: pq.$idx[$ptrof(x)] := old(len(pq.items))

//@ func heapQueue.Pop
//@   holds any queues.PriorityQueue.mx
//@   props C04
//@   requires HQ(pq) && len(pq.items) >= 1
//@   modifies pq.items, pq.$mem
//@   ensures [last] result == $mk(old(pq.items[len(pq.items) - 1])) && len(pq.items) == old(len(pq.items)) - 1
//@   ensures [kept] $elems(pq.items) == old($elems(pq.items))
//@   ensures [mem]  pq.$mem == $store(old(pq.$mem), old(pq.items[len(pq.items) - 1]), false)
//@   ensures [hq]   HQ(pq)
//@   ghost at return: pq.$mem[old(pq.items[len(pq.items) - 1])] := false

// PriorityQueue: abstract state = the set q.internal.$mem of pending entries plus insertionCount; every entry's Index is below
// insertionCount and unique, so the (Priority, Index) order is total on pending entries and Index order is acceptance order.
//@ pred RI_PQ(q *PriorityQueue) := q != nil && q.internal != nil && HQ(q.internal)
//@      && @Heap($elems(q.internal.items), len(q.internal.items)) && len(q.internal.items) <= 2305843009213693952
//@      && (forall e *enqItem {q.internal.$mem[e]} :: q.internal.$mem[e] ==> $alloc(e) && e.Index < q.insertionCount)
//@      && (forall a *enqItem, b *enqItem {q.internal.$mem[a], q.internal.$mem[b]} :: q.internal.$mem[a] && q.internal.$mem[b] && a.Index == b.Index ==> a == b)
//@ assumption: fewer than 2^61 entries are pending in one PriorityQueue and fewer than 2^63-1 are ever enqueued (insertionCount does not overflow)

// Values: a snapshot of exactly the pending values, in heap-array order (what Purge of the bound queue closes, job by job).
//@ func PriorityQueue.Values
//@   props C10
//@   requires RI_PQ(q)
//@   modifies $alloc
//@   ensures [all]   len(result) == len(q.internal.items)
//@   ensures [items] forall k int :: 0 <= k && k < len(result) ==> result[k] == $box(T, q.internal.items[k].Value)
//@   loop 1: invariant [fresh] $fresh(arr(values))
//@   loop 1: invariant [count] 0 <= rangeindex + 1 && rangeindex + 1 <= len($ranged) && len(values) == rangeindex + 1 && len($ranged) == len(q.internal.items)
//@   loop 1: invariant [items] forall k int :: 0 <= k && k < len(values) ==> values[k] == $box(T, q.internal.items[k].Value)

//@ func NewPriorityQueue
//@   props C04 C17 CORE
//@   modifies $alloc
//@   ensures [fresh] $fresh(result) && result.insertionCount == 0 && !result.closed
//@   ensures [empty] len(result.internal.items) == 0
//@   ensures [ri]    RI_PQ(result)
//@   inlines container/heap.Init
//@   loop container/heap.Init#1: invariant n == 0 && i == 0 - 1
//@   dead_loop container/heap.Init.loop1
//@   ghost after call container/heap.Init: pq.$mem := $emptyset()

//@ func PriorityQueue.Len
//@   props C17 C04 CORE
//@   requires q.internal != nil
//@   ensures result == len(q.internal.items)

//@ func PriorityQueue.Enqueue
//@   props C04 C01 C10 C17 CORE
//@   inlines container/heap.Push, container/heap.up
//@   requires RI_PQ(q) && q.insertionCount < MaxInt && len(q.internal.items) < 2305843009213693952
//@   modifies $alloc, q.insertionCount, heapQueue.items, heapQueue.items[**], heapQueue.$mem, heapQueue.$idx
//@   ensures [ri]     RI_PQ(q)
//@   ensures [reject] (old(q.closed) || !$isT(T, item)) ==> !result && q.internal.$mem == old(q.internal.$mem) && q.insertionCount == old(q.insertionCount)
//@   ensures [accept] (!old(q.closed) && $isT(T, item)) ==> result && q.insertionCount == old(q.insertionCount) + 1
//@                      && (exists e *enqItem :: $fresh(e) && e.Value == $asT(T, item) && e.Priority == priority && e.Index == old(q.insertionCount)
//@                            && q.internal.$mem == $store(old(q.internal.$mem), e, true))
//@   ensures [frame]  q.closed == old(q.closed) && q.internal == old(q.internal)
//@   loop container/heap.up#1: invariant [inv] 0 <= j && j < len(q.internal.items) && @InvUp($elems(q.internal.items), len(q.internal.items), j)
//@   loop container/heap.up#1: invariant [hq]  HQ(q.internal) && len(q.internal.items) == old(len(q.internal.items)) + 1
//@                               && q.internal.$mem == $store(old(q.internal.$mem), $addr(i), true) && q.insertionCount == old(q.insertionCount) + 1

//@ func PriorityQueue.Dequeue
//@   props C04 C01 C10 C17 CORE
//@   inlines container/heap.Pop, container/heap.down
//@   requires RI_PQ(q)
//@   modifies heapQueue.items, heapQueue.items[**], heapQueue.$mem, heapQueue.$idx
//@   ensures [ri]    RI_PQ(q)
//@   ensures [empty] old(len(q.internal.items)) == 0 ==> !result1 && result0 == $box(T, zero(T)) && q.internal.$mem == old(q.internal.$mem)
//@   ensures [least] old(len(q.internal.items)) > 0 ==> result1 && (exists e *enqItem :: old(q.internal.$mem)[e] && result0 == $box(T, e.Value)
//@                     && q.internal.$mem == $store(old(q.internal.$mem), e, false) && @MinOf(old(q.internal.$mem), e))
//@   ensures [frame] q.insertionCount == old(q.insertionCount) && q.closed == old(q.closed)
//@   apply RootMinPQ($elems(q.internal.items), len(q.internal.items)) at entry
//@   loop container/heap.down#1: invariant [inv] i0 <= i && i <= 2305843009213693952 && @InvDown($elems(q.internal.items), n, i)
//@   loop container/heap.down#1: invariant [hq]  HQ(q.internal) && len(q.internal.items) == old(len(q.internal.items)) && q.internal.$mem == old(q.internal.$mem)
//@                               && q.internal.items[n] == old(q.internal.items[0])

//@ lemma RootMinPQ(a (Array Int Int), n Int, k Int)
//@   props C04
//@   induct k
//@   requires @Heap(a, n) && 0 <= k && k < n
//@   ensures !@hlt(a[k], a[0])

//@ func PriorityQueue.Purge
//@   props C04 C10 C17 CORE
//@   requires q.internal != nil
//@   modifies $alloc, heapQueue.items, heapQueue.items[**], heapQueue.$mem, heapQueue.$idx
//@   ensures [empty] len(q.internal.items) == 0 && RI_PQ(q)
//@   ensures [count] q.insertionCount == old(q.insertionCount) && q.closed == old(q.closed)
//@   inlines container/heap.Init
//@   loop container/heap.Init#1: invariant n == 0 && i == 0 - 1
//@   dead_loop container/heap.Init.loop1
//@   ghost after call container/heap.Init: q.internal.$mem := $emptyset()

//@ func PriorityQueue.Close
//@   props C10
//@   modifies q.closed
//@   ensures [closed] result == nil && q.closed
