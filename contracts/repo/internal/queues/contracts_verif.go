//go:build verif

// Contracts for package queues, checked by /verif (vq). Comment-only file: no executable code.
package queues

//@ package queues

// ---------------------------------------------------------------- queue.go
// Abstract state of a Queue: the acceptance log $lg (since the last purge); the queue's view is $lg[readCount .. writeCount).
// $base[c] is the absolute log index of slot 0 of chunk c, $inQ[c] says that c belongs to the chain.
//@ type Queue: ghost $lg (Array Int TP_T)
//@ type Queue: ghost $base (Array Int Int)
//@ type Queue: ghost $inQ (Array Int Bool)
//@ assumption: fewer than 2^64-1 items are ever written to one Queue between two purges (writeCount does not wrap)

//@ func NewQueue
//@   props C04 C01 C17
//@   modifies $alloc, result.readChunk, result.writeChunk, result.writeCount, result.readCount, result.maxCapacity, result.closed, result.$lg, result.$base, result.$inQ,
//@            linkedbuffer.Chunk.Data, linkedbuffer.Chunk.NextWriteIndex, linkedbuffer.Chunk.NextReadIndex, linkedbuffer.Chunk.Next, linkedbuffer.Chunk.Data[**]
//@   ensures [fresh] $fresh(result)
//@   ensures [empty] result.readCount == 0 && result.writeCount == 0 && !result.closed
//@   ensures [ri]    @RI_Queue(result)
//@   ghost at return: result.$inQ := $store($emptyset(), result.readChunk, true)
//@   ghost at return: result.$base[result.readChunk] := 0

//@ func Queue.Len
//@   props C17 C04
//@   requires q.readCount <= q.writeCount && q.writeCount - q.readCount <= MaxInt
//@   ensures [len] result == q.writeCount - q.readCount && result >= 0

//@ func Queue.Enqueue
//@   props C04 C01 C10 C17
//@   requires @RI_Queue(q) && q.writeCount < MaxUint64
//@   modifies $alloc, q.writeChunk, q.writeCount, q.$lg, q.$base, q.$inQ,
//@            linkedbuffer.Chunk.Data, linkedbuffer.Chunk.NextWriteIndex, linkedbuffer.Chunk.NextReadIndex, linkedbuffer.Chunk.Next, linkedbuffer.Chunk.Data[**]
//@   ensures [ri]     @RI_Queue(q)
//@   ensures [reject] (old(q.closed) || !$isT(T, item)) ==> !result && q.writeCount == old(q.writeCount) && q.$lg == old(q.$lg)
//@   ensures [accept] (!old(q.closed) && $isT(T, item)) ==> result && q.writeCount == old(q.writeCount) + 1
//@                      && q.$lg == $store(old(q.$lg), old(q.writeCount), $asT(T, item))
//@   ensures [frame]  q.readCount == old(q.readCount) && q.closed == old(q.closed) && q.maxCapacity == old(q.maxCapacity)
//@   unreachable return#5
//@   ghost after call linkedbuffer.NewChunk#1: q.$base[result] := q.$base[q.writeChunk] + cap(q.writeChunk.Data)
//@   ghost after call linkedbuffer.NewChunk#1: q.$inQ[result] := true
//@   ghost after call sync/atomic.Uint64.Add: q.$lg[q.writeCount - 1] := typedItem

//@ func Queue.Dequeue
//@   props C04 C01 C10 C17
//@   requires @RI_Queue(q)
//@   modifies q.readChunk, q.readCount, q.$inQ, linkedbuffer.Chunk.NextReadIndex, linkedbuffer.Chunk.Data[**]
//@   ensures [ri]    @RI_Queue(q)
//@   ensures [item]  old(q.readCount) <  q.writeCount ==> result1 && result0 == $box(T, old(q.$lg)[old(q.readCount)]) && q.readCount == old(q.readCount) + 1
//@   ensures [empty] old(q.readCount) == q.writeCount ==> !result1 && result0 == $box(T, zero(T)) && q.readCount == old(q.readCount)
//@   ensures [frame] q.writeCount == old(q.writeCount) && q.$lg == old(q.$lg) && q.closed == old(q.closed)
//@   ghost after store readChunk: q.$inQ[old(q.readChunk)] := false

//@ func Queue.Purge
//@   props C04 C10 C17
//@   modifies $alloc, q.readChunk, q.writeChunk, q.readCount, q.writeCount, q.$lg, q.$base, q.$inQ,
//@            linkedbuffer.Chunk.Data, linkedbuffer.Chunk.NextWriteIndex, linkedbuffer.Chunk.NextReadIndex, linkedbuffer.Chunk.Next, linkedbuffer.Chunk.Data[**]
//@   requires q.maxCapacity >= 1 && q.maxCapacity <= 4611686018427387904
//@   ensures [ri]    @RI_Queue(q)
//@   ensures [empty] q.readCount == 0 && q.writeCount == 0
//@   ensures [frame] q.closed == old(q.closed) && q.maxCapacity == old(q.maxCapacity)
//@   ghost at return: q.$inQ := $store($emptyset(), q.readChunk, true)
//@   ghost at return: q.$base[q.readChunk] := 0

//@ func Queue.Close
//@   props C10
//@   modifies q.closed
//@   ensures [closed] result == nil && q.closed
