//go:build verif

// Contracts for package pool, checked by /verif (vq). Comment-only file: no executable code.
package pool

//@ package pool

// Every value in Pool.Cache is a list node that is in no list, whose pool node has an open channel (sync.Pool invariant: established by
// the New closure, required of every Put, assumed of every Get).
//@ type Pool: pool Cache holds PoolNodeOK
// lastUsed is stamped by the pool goroutine (freePoolNode) and read by the idle-worker reaper without any lock
//@ type Node: atomic lastUsed
//@ pred PoolNodeOK(v ref) := $typeof(v) == $tid(*linkedlist.Node[Node]) && $ptrof(v) != nil && $alloc($ptrof(v)) && NodeOK($as(*linkedlist.Node[Node], v))
//@ pred NodeOK(n *linkedlist.Node[Node]) := n != nil && n.next == nil && n.prev == nil && n.Value.ch != nil && $open(n.Value.ch) && $cap(n.Value.ch) >= 1

//@ func CreateNode
//@   props C01 C18
//@   requires bufferSize >= 0
//@   modifies $alloc
//@   ensures [chan] result.ch != nil && $fresh(result.ch) && $open(result.ch) && $cap(result.ch) == bufferSize && $sent(result.ch) == 0 && $rcvd(result.ch) == 0

// Send / Stop put exactly one payload on the node's channel: (data, true) / (zero, false).
//@ func Node.Send
//@   props C01 C03
//@   requires wc.ch != nil && $open(wc.ch)
//@   modifies $chan(wc.ch)
//@   ensures [one]     $sent(wc.ch) == old($sent(wc.ch)) + 1 && $open(wc.ch)
//@   ensures [payload] $chval(wc.ch, old($sent(wc.ch))).ok && $chval(wc.ch, old($sent(wc.ch))).data == data

//@ func Node.Stop
//@   props C01 C18
//@   requires wc.ch != nil && $open(wc.ch)
//@   modifies $chan(wc.ch)
//@   ensures [one]     $sent(wc.ch) == old($sent(wc.ch)) + 1 && $open(wc.ch)
//@   ensures [payload] !$chval(wc.ch, old($sent(wc.ch))).ok

// Serve: every payload received is either the stop payload (Serve returns) or is handed to fn exactly once.
//@ func Node.Serve
//@   props C01 C03 C18
//@   requires wc.ch != nil && fn != nil
//@   modifies $usercalls, $chan(wc.ch), $open(wc.ch)
//@   ensures [calls] $usercalls - old($usercalls) <= $rcvd(wc.ch) - old($rcvd(wc.ch)) && $usercalls - old($usercalls) >= $rcvd(wc.ch) - old($rcvd(wc.ch)) - 1
//@   loop 1: invariant $usercalls - old($usercalls) == $rcvd(wc.ch) - old($rcvd(wc.ch)) && $rcvd(wc.ch) >= old($rcvd(wc.ch))

//@ func Node.UpdateLastUsed
//@   props C18
//@   modifies wc.lastUsed, $alloc
//@   ensures wc.lastUsed != nil && $typeof(wc.lastUsed) == $tid(time.Time)

//@ func Node.GetLastUsed
//@   props C18
//@   requires wc.lastUsed == nil || $typeof(wc.lastUsed) == $tid(time.Time)

//@ func New
//@   props C01 C18
//@   requires cap >= 1
//@   modifies $alloc
//@   ensures [fresh] $fresh(result) && result.List != nil && $fresh(result.List) && result.List.len == 0 && @RI_List(result.List)

// The New function of the cache builds a fresh detached node with an open channel of the pool's capacity.
//@ func New$1
//@   props C01 C18
//@   requires $deref(cap) >= 1
//@   modifies $alloc
//@   ensures PoolNodeOK(result) && $fresh($ptrof(result))
