//go:build verif

// Contracts for package helpers, checked by /verif (vq). Comment-only file: no executable code.
package helpers

//@ package helpers
//@ type Manager: guarded_by mx: items, roundRobinIndex
//@ type WgCounter: atomic count

// ---------------------------------------------------------------- manager.go
// $lenOf(x): what x.Len() currently returns (ghost view of the bound queue's state). Len() is a pure observer.
//@ ghost $lenOf fun Int
//@ assumption: Sizer.Len() is a pure observer: it returns the item's current length and changes nothing (holds for queues.Queue and queues.PriorityQueue; assumed of user adapters)

//@ iface Sizer.Len
//@   ensures result == $lenOf(self)

//@ pred RI_Manager(m *Manager) := m != nil && 0 <= m.roundRobinIndex && (len(m.items) > 0 ==> m.roundRobinIndex < len(m.items)) && (len(m.items) == 0 ==> m.roundRobinIndex == 0)
// i lies in the cyclic index interval [s, r) of a ring of n slots
//@ pred inCyc(n int, s int, r int, i int) := 0 <= i && i < n && ((s <= r && s <= i && i < r) || (s > r && (i >= s || i < r)))

//@ func CreateManager
//@   props C15 C17
//@   modifies $alloc
//@   ensures len(result.items) == 0 && result.roundRobinIndex == 0

//@ func Manager.Register
//@   props C15 C17
//@   requires RI_Manager(m) && len(m.items) < MaxInt
//@   modifies m.items, m.items[**], $alloc
//@   ensures [appended] len(m.items) == old(len(m.items)) + 1 && m.items[old(len(m.items))] == item
//@   ensures [kept]     forall i int :: 0 <= i && i < old(len(m.items)) ==> m.items[i] == old(m.items[i])
//@   ensures [ri]       RI_Manager(m) && m.roundRobinIndex == old(m.roundRobinIndex)

//@ func Manager.Count
//@   props C15 C17
//@   ensures result == len(m.items)

//@ func Manager.Len
//@   props C17 C15
//@   requires forall i int :: 0 <= i && i < len(m.items) ==> $lenOf(m.items[i]) >= 0
//@   requires forall k int {@sumLen(m.items, k)} :: 0 <= k && k <= len(m.items) ==> @sumLen(m.items, k) <= MaxInt
//@   ensures  [sum] result == @sumLen(m.items, len(m.items)) && result >= 0
//@   loop 1: invariant 0 <= rangeindex + 1 && rangeindex + 1 <= len(m.items) && totalLen == @sumLen(m.items, rangeindex + 1) && totalLen >= 0

//@ func Manager.GetRoundRobinItem
//@   props C15
//@   requires RI_Manager(m)
//@   modifies m.roundRobinIndex
//@   ensures [errs]   result1 == nil || result1 == ErrNoItemsRegistered || result1 == ErrAllItemsEmpty
//@   ensures [none]   len(m.items) == 0 ==> result1 == ErrNoItemsRegistered && m.roundRobinIndex == old(m.roundRobinIndex)
//@   ensures [some]   len(m.items) > 0 ==> result1 != ErrNoItemsRegistered
//@   ensures [hit]    result1 == nil ==> exists j int :: 0 <= j && j < len(m.items) && result0 == m.items[j] && $lenOf(m.items[j]) > 0
//@                      && (forall i int :: inCyc(len(m.items), old(m.roundRobinIndex), j, i) && j != old(m.roundRobinIndex) ==> $lenOf(m.items[i]) <= 0)
//@                      && m.roundRobinIndex == (j + 1) % len(m.items)
//@   ensures [empty]  result1 == ErrAllItemsEmpty ==> (forall i int :: 0 <= i && i < len(m.items) ==> $lenOf(m.items[i]) <= 0)
//@                      && m.roundRobinIndex == old(m.roundRobinIndex)
//@   ensures [ri]     RI_Manager(m)
//@   loop 1: invariant [range] 0 <= m.roundRobinIndex && m.roundRobinIndex < len(m.items) && start == old(m.roundRobinIndex)
//@   loop 1: invariant [swept] m.roundRobinIndex != start ==> (forall i int :: inCyc(len(m.items), start, m.roundRobinIndex, i) ==> $lenOf(m.items[i]) <= 0)

// GetMaxLenItem: slices.MaxFunc and the comparison closure are executed from their real source inside this proof
// (the loop invariant below is the one of slices.MaxFunc's loop).
//@ func Manager.GetMaxLenItem
//@   props C15
//@   requires forall i int :: 0 <= i && i < len(m.items) ==> $lenOf(m.items[i]) >= 0
//@   ensures [errs]  result1 == nil || result1 == ErrNoItemsRegistered || result1 == ErrAllItemsEmpty
//@   ensures [none]  len(m.items) == 0 <==> result1 == ErrNoItemsRegistered
//@   ensures [hit]   result1 == nil ==> exists j int :: 0 <= j && j < len(m.items) && result0 == m.items[j] && $lenOf(m.items[j]) > 0
//@                     && (forall i int :: 0 <= i && i < len(m.items) ==> $lenOf(m.items[i]) <= $lenOf(m.items[j]))
//@   ensures [empty] result1 == ErrAllItemsEmpty ==> (forall i int :: 0 <= i && i < len(m.items) ==> $lenOf(m.items[i]) <= 0)
//@   ensures [frame] m.roundRobinIndex == old(m.roundRobinIndex)
//@   loop slices.MaxFunc#1: invariant [range] 1 <= i && i <= len(x)
//@   loop slices.MaxFunc#1: invariant [ismax] (exists j int :: 0 <= j && j < i && m == x[j]) && (forall k int :: 0 <= k && k < i ==> $lenOf(x[k]) <= $lenOf(m))

//@ func Manager.GetMinLenItem
//@   props C15
//@   ensures [errs]  result1 == nil || result1 == ErrNoItemsRegistered || result1 == ErrAllItemsEmpty
//@   ensures [none]  len(m.items) == 0 <==> result1 == ErrNoItemsRegistered
//@   ensures [hit]   result1 == nil ==> exists j int :: 0 <= j && j < len(m.items) && result0 == m.items[j] && $lenOf(m.items[j]) > 0
//@                     && (forall i int :: 0 <= i && i < len(m.items) && $lenOf(m.items[i]) > 0 ==> $lenOf(m.items[j]) <= $lenOf(m.items[i]))
//@   ensures [empty] result1 == ErrAllItemsEmpty ==> (forall i int :: 0 <= i && i < len(m.items) ==> $lenOf(m.items[i]) <= 0)
//@   ensures [frame] m.roundRobinIndex == old(m.roundRobinIndex)
//@   loop 1: invariant [range] 0 <= rangeindex + 1 && rangeindex + 1 <= len(m.items) && (minLen == 0 - 1 || minLen > 0)
//@   loop 1: invariant [none]  minLen == 0 - 1 ==> (forall k int :: 0 <= k && k <= rangeindex ==> $lenOf(m.items[k]) <= 0)
//@   loop 1: invariant [min]   minLen > 0 ==> (exists j int :: 0 <= j && j <= rangeindex && minItem == m.items[j] && minLen == $lenOf(m.items[j]))
//@                               && (forall k int :: 0 <= k && k <= rangeindex && $lenOf(m.items[k]) > 0 ==> minLen <= $lenOf(m.items[k]))

//@ func Manager.UnregisterItem
//@   props C15
//@   requires RI_Manager(m)
//@   modifies m.items, m.items[**], m.roundRobinIndex
//@   ensures [ri]  RI_Manager(m)
//@   ensures [len] len(m.items) == old(len(m.items)) || len(m.items) == old(len(m.items)) - 1
//@   loop 1: invariant 0 <= rangeindex + 1 && rangeindex + 1 <= len(m.items) && RI_Manager(m) && len(m.items) == old(len(m.items))

// ---------------------------------------------------------------- wg_counter.go
// Invariant of a batch counter: count equals the WaitGroup counter (both are the number of items not yet finished).
//@ pred RI_Wgc(pt *WgCounter) := pt != nil && pt.count == pt.wg && pt.count >= 0

//@ func NewWgCounter
//@   props C05 C08
//@   requires 0 <= bufferSize && bufferSize <= MaxUint32
//@   modifies $alloc, result.count, result.wg
//@   ensures [fresh] $fresh(result) && result.count == bufferSize && RI_Wgc(result)

// B2-lite: other finishers of the same batch decrement the counter at any time (nobody increments it after construction), so what a
// caller reads is at most what it knew -- in particular a zero read after one's own Done() does not mean one's own Done() reached zero.
//@ assumption: B2-lite rely for WgCounter.Count: after construction a batch counter is only ever decremented (NewWgCounter is the only function that raises it), so a concurrent reader sees at most the value it knew
//@ func WgCounter.Count
//@   props C08 C05
//@   ensures [SEQ] result == pt.count
//@   ensures [B1]  result == pt.count
//@   ensures [B2]  0 <= result && result <= pt.count

//@ func WgCounter.Done
//@   props C05 C08 C05@B2 C08@B2
// B2-lite: a call that found the counter positive performs its wg.Done() whatever other finishers do in between (no lost completion)
//@   ensures [B2] [b2-done] old(pt.count) > 0 ==> $wgdone[0] == old($wgdone[0]) + 1
// B2-lite: "this call finished the last item" is decided by the value the call's own atomic decrement returned, never by a later read
//@   ghost entry: $mine := false
//@   ghost after call sync/atomic.Uint32.Add: $mine := pt.count == 0
//@   assert [b2-last-own] at return: result ==> $mine
//@   requires RI_Wgc(pt)
//@   modifies pt.count, pt.wg, $wgdone[0]
//@   ensures [zero] old(pt.count) == 0 ==> pt.count == 0 && pt.wg == old(pt.wg)
//@   ensures [dec]  old(pt.count) > 0 ==> pt.count == old(pt.count) - 1
//@   ensures [last] result == (old(pt.count) == 1)
//@   ensures [ri]   RI_Wgc(pt)

//@ func WgCounter.Wait
//@   props C05 C08
//@   requires RI_Wgc(pt)
//@   modifies pt.wg
//@   ensures pt.wg == 0

// ---------------------------------------------------------------- response.go
//@ func NewResponse
//@   props C05 C07 C08
//@   requires cap >= 0
//@   modifies $alloc, result.ch, result.res, $chan(result.ch), $open(result.ch), $cap(result.ch)
//@   ensures [fresh] $fresh(result) && result.ch != nil && $fresh(result.ch)
//@   ensures [chan]  $open(result.ch) && $cap(result.ch) == cap && $sent(result.ch) == 0 && $rcvd(result.ch) == 0

//@ func Response.Read
//@   props C08
//@   ensures result == rc.ch

// Send stores the value for later readers and offers it on the channel.
//@ func Response.Send
//@   props C05 C07 C08
//@   requires c.ch != nil && $open(c.ch)
//@   modifies c.res, $chan(c.ch)
//@   ensures [stored] c.res == res
//@   ensures [sent]   $sent(c.ch) == old($sent(c.ch)) + 1 && $chval(c.ch, old($sent(c.ch))) == res && $open(c.ch)

// Response returns a buffered value if there is one; on a closed, drained channel it returns the stored value.
//@ func Response.Response
//@   props C05 C07
//@   requires c.ch != nil
//@   modifies $chan(c.ch), $open(c.ch)
//@   ensures [buffered] old($rcvd(c.ch)) < old($sent(c.ch)) ==> result == $chval(c.ch, old($rcvd(c.ch))) && $rcvd(c.ch) == old($rcvd(c.ch)) + 1
//@   ensures [closed]   old($rcvd(c.ch)) == old($sent(c.ch)) && !old($open(c.ch)) ==> result == c.res && $rcvd(c.ch) == old($rcvd(c.ch))

//@ func Response.Close
//@   props C05 C07 C08
//@   requires rc.ch != nil && $open(rc.ch)
//@   modifies $open(rc.ch)
//@   ensures [closed] result == nil && !$open(rc.ch)

//@ func Response.Drain
//@   props C05
//@   modifies $spawned["helpers.Response.Drain$1"], $alloc
//@   ensures $spawned["helpers.Response.Drain$1"] == old($spawned["helpers.Response.Drain$1"]) + 1
