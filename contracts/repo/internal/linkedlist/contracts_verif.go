//go:build verif

// Contracts for package linkedlist, checked by /verif (vq). Comment-only file: no executable code.
package linkedlist

//@ package linkedlist

// Ghost view of a List: $at[0] is the sentinel (&l.root), $at[1..len] the nodes front to back; $pos is the inverse; $in membership.
//@ type List: ghost $at (Array Int Int)
//@ type List: ghost $pos (Array Int Int)
//@ type List: ghost $in (Array Int Bool)
//@ type List: guarded_by mx: len
//@ type Node: guarded_by any linkedlist.List.mx: next, prev
//@ assumption: a node belongs to at most one list, and a node outside every list has both links nil (NewNode creates it so; Remove/Pop* leave it so)

//@ func NewNode
//@   props C01 C18
//@   modifies $alloc, result.Value, result.next, result.prev
//@   ensures [fresh] $fresh(result) && result.Value == value && result.next == nil && result.prev == nil

//@ func Node.Next
//@   props C18
//@   ensures result == n.next

//@ func Node.Prev
//@   props C18
//@   ensures result == n.prev

//@ func List.Init
//@   props C01 C18
//@   modifies l.root.next, l.root.prev, l.len, l.$at, l.$pos, l.$in
//@   ensures [ri]    result == l && l.len == 0 && @RI_List(l)
//@   ghost at return: l.$at := $store(old(l.$at), 0, $addr(l.root))
//@   ghost at return: l.$pos := $store(old(l.$pos), $addr(l.root), 0)
//@   ghost at return: l.$in := $store($emptyset(), $addr(l.root), true)

//@ func New
//@   props C01 C18
//@   modifies $alloc, result.root.next, result.root.prev, result.len, result.$at, result.$pos, result.$in
//@   ensures [fresh] $fresh(result) && result.len == 0 && @RI_List(result)

//@ func List.Len
//@   props C01 C17 C18
//@   ensures result == l.len

//@ func List.PushNode
//@   props C01 C03 C18
//@   requires @RI_List(l) && n != nil && !l.$in[n] && l.len < MaxInt
//@   modifies Node.next, Node.prev, l.len, l.$at, l.$pos, l.$in
//@   ensures [ri]     @RI_List(l) && l.len == old(l.len) + 1
//@   ensures [last]   l.$in[n] && l.$at[l.len] == n && l.$in == $store(old(l.$in), n, true)
//@   ensures [kept]   forall k int :: 0 <= k && k < l.len ==> l.$at[k] == old(l.$at)[k]
//@   ensures [frame]  forall m *Node {m.next} :: !l.$in[m] ==> m.next == old(m.next) && m.prev == old(m.prev)
//@   ghost at return: l.$at[old(l.len) + 1] := n
//@   ghost at return: l.$pos[n] := old(l.len) + 1
//@   ghost at return: l.$in[n] := true

//@ func List.PopBack
//@   props C01 C03 C18
//@   requires @RI_List(l)
//@   modifies Node.next, Node.prev, l.len, l.$in
//@   ensures [ri]     @RI_List(l)
//@   ensures [empty]  old(l.len) == 0 ==> result == nil && l.len == 0 && l.$in == old(l.$in)
//@   ensures [popped] old(l.len) > 0 ==> result == old(l.$at)[old(l.len)] && result != nil && result != $addr(l.root) && old(l.$in)[result]
//@                      && l.len == old(l.len) - 1 && l.$in == $store(old(l.$in), result, false) && result.next == nil && result.prev == nil
//@   ensures [frame]  forall m *Node {m.next} :: !old(l.$in)[m] ==> m.next == old(m.next) && m.prev == old(m.prev)
//@   ghost at return when result != nil: l.$in[result] := false

//@ func List.Remove
//@   props C01 C03 C18
//@   requires @RI_List(l) && node != nil && (l.$in[node] || @Detached(node))
//@   modifies Node.next, Node.prev, l.len, l.$at, l.$pos, l.$in
//@   ensures [ri]      @RI_List(l)
// B2 (ownership under interference): between the caller's last look at the list and this call another goroutine may have taken the node,
// so in mode B2 the result is NOT determined by what the caller knew: only a true result proves that the caller now owns the node.
//@   ensures [SEQ] [result]  result == (old(l.$in)[node] && node != $addr(l.root))
//@   ensures [removed] result ==> l.len == old(l.len) - 1 && l.$in == $store(old(l.$in), node, false) && node.next == nil && node.prev == nil
//@                       && (forall i int {l.$at[i]} :: l.$at[i] == (i < old(l.$pos)[node] ? old(l.$at)[i] : old(l.$at)[i + 1]))
//@   ensures [same]    !result ==> l.len == old(l.len) && l.$in == old(l.$in) && l.$at == old(l.$at) && node.next == old(node.next) && node.prev == old(node.prev)
//@   ensures [frame]   forall m *Node {m.next} :: !old(l.$in)[m] ==> m.next == old(m.next) && m.prev == old(m.prev)
//@   ghost at return when result: choose l.$at, l.$pos such that
//@         (forall i int {l.$at[i]} :: l.$at[i] == (i < old(l.$pos)[node] ? old(l.$at)[i] : old(l.$at)[i + 1]))
//@      && (forall x ref {l.$pos[x]} :: l.$pos[x] == (old(l.$pos)[x] > old(l.$pos)[node] ? old(l.$pos)[x] - 1 : old(l.$pos)[x]))
//@   ghost at return when result: l.$in[node] := false

//@ func List.NodeSlice
//@   props C01 C18
//@   requires @RI_List(l)
//@   modifies $alloc
// B2: the snapshot is as long as the list was at that instant, which need not be the length the caller read before
//@   ensures [SEQ] [len]   len(result) == l.len
//@   ensures [elems] forall k int :: 0 <= k && k < l.len ==> result[k] == l.$at[k + 1]
//@   ensures [fresh] l.len > 0 ==> $fresh(arr(result))
//@   loop 1: invariant [pos]   l.$in[node] && len(nodes) <= l.len && (node == $addr(l.root) ? len(nodes) == l.len : l.$pos[node] == len(nodes) + 1)
//@   loop 1: invariant [elems] forall k int :: 0 <= k && k < len(nodes) ==> nodes[k] == l.$at[k + 1]
//@   loop 1: invariant [cap]   cap(nodes) == l.len && (l.len > 0 ==> $fresh(arr(nodes)))
