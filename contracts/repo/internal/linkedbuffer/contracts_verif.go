//go:build verif

// Contracts for package linkedbuffer, checked by /verif (vq). Comment-only file: no executable code.
package linkedbuffer

//@ package linkedbuffer
// lock discipline (B1): a chunk belongs to one queues.Queue and is only touched under that queue's mutex
//@ type Chunk: guarded_by any queues.Queue.mx: Data, NextWriteIndex, NextReadIndex, Next

// Representation invariant of a chunk: read index <= write index <= capacity, the slice is used at full length
// and starts at offset 0 of a backing array of its own.
//@ pred RI_Chunk(c *Chunk) := c != nil && 0 <= c.NextReadIndex && c.NextReadIndex <= c.NextWriteIndex && c.NextWriteIndex <= cap(c.Data)
//@      && len(c.Data) == cap(c.Data) && off(c.Data) == 0

//@ func NewChunk
//@   props C04 C01 C17
//@   requires capacity >= 0
//@   modifies $alloc, result.Data, result.NextWriteIndex, result.NextReadIndex, result.Next, result.Data[*]
//@   ensures [fresh] $fresh(result) && $fresh(arr(result.Data))
//@   ensures [empty] result.NextReadIndex == 0 && result.NextWriteIndex == 0 && result.Next == nil
//@   ensures [shape] len(result.Data) == capacity && cap(result.Data) == capacity && off(result.Data) == 0

//@ func Chunk.Len
//@   holds any queues.Queue.mx r
//@   props C04 C17
//@   requires c.NextReadIndex <= c.NextWriteIndex && 0 <= c.NextReadIndex
//@   ensures result == c.NextWriteIndex - c.NextReadIndex

//@ func Chunk.Cap
//@   holds any queues.Queue.mx r
//@   props C04
//@   ensures result == cap(c.Data)

//@ func Chunk.IsFull
//@   holds any queues.Queue.mx r
//@   props C04 C01
//@   ensures result == (c.NextWriteIndex >= cap(c.Data))

//@ func Chunk.IsEmpty
//@   holds any queues.Queue.mx r
//@   props C04 C01
//@   ensures result == (c.NextReadIndex >= c.NextWriteIndex)

//@ func Chunk.Push
//@   holds any queues.Queue.mx
//@   props C04 C01
//@   requires RI_Chunk(c)
//@   modifies c.NextWriteIndex, c.Data[*]
//@   ensures [full]  old(c.NextWriteIndex) >= cap(c.Data) ==> !result && c.NextWriteIndex == old(c.NextWriteIndex)
//@                   && (forall i int :: c.Data[i] == old(c.Data[i]))
//@   ensures [room]  old(c.NextWriteIndex) <  cap(c.Data) ==> result && c.NextWriteIndex == old(c.NextWriteIndex)+1
//@                   && c.Data[old(c.NextWriteIndex)] == item
//@                   && (forall i int :: i != old(c.NextWriteIndex) ==> c.Data[i] == old(c.Data[i]))
//@   ensures [ri]    RI_Chunk(c)

//@ func Chunk.Pop
//@   holds any queues.Queue.mx
//@   props C04 C01
//@   requires RI_Chunk(c)
//@   modifies c.NextReadIndex, c.Data[*]
//@   ensures [empty] old(c.NextReadIndex) >= c.NextWriteIndex ==> !result1 && result0 == zero(T) && c.NextReadIndex == old(c.NextReadIndex)
//@                   && (forall i int :: c.Data[i] == old(c.Data[i]))
//@   ensures [item]  old(c.NextReadIndex) <  c.NextWriteIndex ==> result1 && result0 == old(c.Data[c.NextReadIndex])
//@                   && c.NextReadIndex == old(c.NextReadIndex)+1 && c.Data[old(c.NextReadIndex)] == zero(T)
//@                   && (forall i int :: i != old(c.NextReadIndex) ==> c.Data[i] == old(c.Data[i]))
//@   ensures [ri]    RI_Chunk(c)
