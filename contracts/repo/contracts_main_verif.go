//go:build verif

// Contracts for main.go of package varmq (the wrappers around the user's worker function), checked by /verif (vq).
// Comment-only file: no executable code.
package varmq

//@ package varmq

// The wrappers are verified with utils.WithSafe and their inner closure executed from the real bodies; the user's function `wf` is
// an arbitrary callee with two outcomes (returns / panics). $ret.. name what it returned.

// NewWorker$1: plain worker. Exactly one of Successful / Failed is bumped; a panic is contained, counted as failed and offered on the
// worker's error channel.
//@ func NewWorker$1
//@   concurrent
//@   props C07 C17 C07@B1
//@   inlines utils.WithSafe
//@   contains_panics
//@   requires $deref(wf) != nil && $deref(w) != nil && $deref(w).metrics != nil && ChanOK($deref(w).errorChan)
//@   modifies $usercalls, $alloc, $successful($deref(w).metrics), $failed($deref(w).metrics), $chan($deref(w).errorChan)
//@   ensures [called]  $usercalls == old($usercalls) + 1
//@   ensures [ok]      !$panicked ==> $successful($deref(w).metrics) == old($successful($deref(w).metrics)) + 1 && $failed($deref(w).metrics) == old($failed($deref(w).metrics))
//@                        && $sent($deref(w).errorChan) == old($sent($deref(w).errorChan))
//@   ensures [panic]   $panicked ==> $failed($deref(w).metrics) == old($failed($deref(w).metrics)) + 1 && $successful($deref(w).metrics) == old($successful($deref(w).metrics))
//@   ensures [offered] $panicked && $deref(w).errorChan != nil && old($len($deref(w).errorChan)) < $cap($deref(w).errorChan) ==> $sent($deref(w).errorChan) == old($sent($deref(w).errorChan)) + 1

// NewErrWorker$1: error worker. The handle gets the error iff the function returned one or panicked -- exactly once, its own;
// Successful / Failed exactly one.
//@ func NewErrWorker$1
//@   concurrent
//@   props C07 C17 C07@B1
//@   inlines utils.WithSafe
//@   contains_panics
//@   requires $deref(wf) != nil && $deref(w) != nil && $deref(w).metrics != nil && ChanOK($deref(w).errorChan) && ij != nil
//@   modifies $usercalls, $alloc, $successful($deref(w).metrics), $failed($deref(w).metrics), $chan($deref(w).errorChan), $nerrors(ij), $lastError(ij)
//@   ensures [called]  $usercalls == old($usercalls) + 1
//@   ensures [ok]      !$panicked && $reterr == nil ==> $nerrors(ij) == old($nerrors(ij)) && $successful($deref(w).metrics) == old($successful($deref(w).metrics)) + 1
//@                        && $failed($deref(w).metrics) == old($failed($deref(w).metrics)) && $sent($deref(w).errorChan) == old($sent($deref(w).errorChan))
//@   ensures [err]     !$panicked && $reterr != nil ==> $nerrors(ij) == old($nerrors(ij)) + 1 && $lastError(ij) == $reterr
//@                        && $failed($deref(w).metrics) == old($failed($deref(w).metrics)) + 1 && $successful($deref(w).metrics) == old($successful($deref(w).metrics))
//@   ensures [panic]   $panicked ==> $nerrors(ij) == old($nerrors(ij)) + 1 && $lastError(ij) != nil
//@                        && $failed($deref(w).metrics) == old($failed($deref(w).metrics)) + 1 && $successful($deref(w).metrics) == old($successful($deref(w).metrics))
//@   ghost entry: $reterr := nil
//@   ghost after call NewErrWorker$1$1::funcvalue: $reterr := result

// NewResultWorker$1: result worker. Exactly one outcome reaches the handle: the result if the function returned (r, nil), else the error
// (returned or recovered panic).
//@ func NewResultWorker$1
//@   concurrent
//@   props C07 C17 C07@B1
//@   inlines utils.WithSafe
//@   contains_panics
//@   requires $deref(wf) != nil && $deref(w) != nil && $deref(w).metrics != nil && ChanOK($deref(w).errorChan) && ij != nil
//@   modifies $usercalls, $alloc, $successful($deref(w).metrics), $failed($deref(w).metrics), $chan($deref(w).errorChan), $nerrors(ij), $lastError(ij), $nresults(ij)
//@   ensures [called]  $usercalls == old($usercalls) + 1
//@   ensures [one]     $nresults(ij) + $nerrors(ij) == old($nresults(ij)) + old($nerrors(ij)) + 1
//@   ensures [ok]      !$panicked && $reterr == nil ==> $nresults(ij) == old($nresults(ij)) + 1 && $successful($deref(w).metrics) == old($successful($deref(w).metrics)) + 1
//@                        && $failed($deref(w).metrics) == old($failed($deref(w).metrics)) && $sent($deref(w).errorChan) == old($sent($deref(w).errorChan))
//@   ensures [err]     !$panicked && $reterr != nil ==> $nerrors(ij) == old($nerrors(ij)) + 1 && $lastError(ij) == $reterr
//@                        && $failed($deref(w).metrics) == old($failed($deref(w).metrics)) + 1 && $successful($deref(w).metrics) == old($successful($deref(w).metrics))
//@   ensures [panic]   $panicked ==> $nerrors(ij) == old($nerrors(ij)) + 1 && $lastError(ij) != nil && $nresults(ij) == old($nresults(ij))
//@                        && $failed($deref(w).metrics) == old($failed($deref(w).metrics)) + 1 && $successful($deref(w).metrics) == old($successful($deref(w).metrics))
//@   ghost entry: $reterr := nil
//@   ghost after call NewResultWorker$1$1::funcvalue: $reterr := result1
