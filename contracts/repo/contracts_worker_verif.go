//go:build verif

// Contracts for worker.go and worker_binder.go of package varmq, checked by /verif (vq). Comment-only file: no executable code.
package varmq

//@ package varmq

// A worker's channel fields are nil (stopped) or open: closeChannels closes and nils them under the lock.
//@ pred ChanOK(c ref) := c == nil || $open(c)

// sendError / notifyToPullNextJobs never block: a non-blocking send that is taken iff the channel is non-nil and has room
// (an unbuffered channel may also hand the value to a waiting receiver).
//@ func worker.sendError
//@   props C03 C07 C14
//@   requires ChanOK(w.errorChan)
//@   modifies $chan(w.errorChan)
//@   ensures [offered] w.errorChan != nil && old($len(w.errorChan)) < $cap(w.errorChan) ==> $sent(w.errorChan) == old($sent(w.errorChan)) + 1
//@                       && $chval(w.errorChan, old($sent(w.errorChan))) == err
//@   ensures [atmost]  $sent(w.errorChan) == old($sent(w.errorChan)) || $sent(w.errorChan) == old($sent(w.errorChan)) + 1
//@   ensures [nil]     w.errorChan == nil ==> $sent(w.errorChan) == old($sent(w.errorChan))

// After notifyToPullNextJobs a wake-up token is pending on the signal channel (if there is one and it is buffered).
//@ func worker.notifyToPullNextJobs
//@   props C03 C09 C14
//@   requires ChanOK(w.eventLoopSignal)
//@   modifies $chan(w.eventLoopSignal)
//@   ensures [pending] w.eventLoopSignal != nil && $cap(w.eventLoopSignal) >= 1 ==> $len(w.eventLoopSignal) >= 1
//@   ensures [atmost]  $sent(w.eventLoopSignal) == old($sent(w.eventLoopSignal)) || $sent(w.eventLoopSignal) == old($sent(w.eventLoopSignal)) + 1
