//go:build verif

// Contracts for worker.go and worker_binder.go of package varmq, checked by /verif (vq). Comment-only file: no executable code.
package varmq

//@ package varmq

// A worker's channel fields are nil (stopped) or open: closeChannels closes and nils them under the lock.
//@ pred ChanOK(c ref) := c == nil || $open(c)

// sendError / notifyToPullNextJobs never block: a non-blocking send that is taken iff the channel is non-nil and has room
// (an unbuffered channel may also hand the value to a waiting receiver).
//@ func worker.sendError
//@   props C03 C07 C14
//@   requires ChanOK(w.errorChan)
//@   modifies $chan(w.errorChan)
//@   ensures [offered] w.errorChan != nil && old($len(w.errorChan)) < $cap(w.errorChan) ==> $sent(w.errorChan) == old($sent(w.errorChan)) + 1
//@                       && $chval(w.errorChan, old($sent(w.errorChan))) == err
//@   ensures [atmost]  $sent(w.errorChan) == old($sent(w.errorChan)) || $sent(w.errorChan) == old($sent(w.errorChan)) + 1
//@   ensures [nil]     w.errorChan == nil ==> $sent(w.errorChan) == old($sent(w.errorChan))

// After notifyToPullNextJobs a wake-up token is pending on the signal channel (if there is one and it is buffered).
//@ func worker.notifyToPullNextJobs
//@   props C03 C09 C14 CORE
//@   requires ChanOK(w.eventLoopSignal)
//@   modifies $chan(w.eventLoopSignal)
//@   ensures [pending] w.eventLoopSignal != nil && $cap(w.eventLoopSignal) >= 1 ==> $len(w.eventLoopSignal) >= 1
//@   ensures [atmost]  $sent(w.eventLoopSignal) == old($sent(w.eventLoopSignal)) || $sent(w.eventLoopSignal) == old($sent(w.eventLoopSignal)) + 1

// ---------------------------------------------------------------- ghost resources of a worker
//@ type worker: ghost $disp Int
//@ type worker: ghost $listeners Int
//@ type worker: ghost $armed Int
//@ type worker: ghost $reapers Int
//@ type worker: ghost $nodes Int
//@ type worker: ghost $dispatched Int
//@ type worker: ghost $freed Int
//@ type worker: ghost $lockEpoch Int
//@ type worker: ghost $cancelEpoch Int
//@ type worker: guarded_by mx: eventLoopSignal, errorChan, tickers, ctx, cancel
//@ type worker: frozen workerFunc, pool, waiters, metrics, Configs
//@ type worker: atomic concurrency, curProcessing, status
// $disp: dispatcher goroutines reading w.eventLoopSignal (they return when that channel is closed)
// $listeners: context listeners on w.ctx that have not fired yet; $armed: asynchronous Stop() calls triggered by cancel() and not yet run
// $reapers: live idle-worker reapers; $nodes: pool goroutines started; $dispatched: jobs handed to a pool node; $freed: nodes given back

// Idle list: a ring (RI_List) of detached-from-nothing nodes whose channels are open.
//@ pred PoolOK(w *worker) := w.pool != nil && w.pool.List != nil && @RI_List(w.pool.List)
//@      && (forall n *linkedlist.Node[pool.Node[JobType]] {w.pool.List.$in[n]} :: w.pool.List.$in[n] && n != $addr(w.pool.List.root) ==> $alloc(n) && n.Value.ch != nil && $open(n.Value.ch) && $cap(n.Value.ch) >= 1)
//@ pred NodeFree(n *linkedlist.Node[pool.Node[JobType]]) := n != nil && $alloc(n) && n.next == nil && n.prev == nil && n.Value.ch != nil && $open(n.Value.ch) && $cap(n.Value.ch) >= 1

// Worker invariant, per lifecycle state (C14): what "Running" must mean for the worker to be able to process jobs.
//@ pred RI_worker(w *worker) := w != nil && PoolOK(w) && QM(w) && w.metrics != nil && w.waiters != nil && w.workerFunc != nil
//@      && 0 <= w.status && w.status <= stopped && w.concurrency >= 1 && w.$disp >= 0 && w.$armed >= 0 && w.$listeners >= 0 && w.$reapers >= 0
//@      && (w.status == initiated ==> w.eventLoopSignal != nil && $open(w.eventLoopSignal) && $cap(w.eventLoopSignal) >= 1 && w.errorChan != nil && $open(w.errorChan)
//@                                     && w.$disp == 0 && w.$listeners == 0 && w.pool.List.len == 0 && w.curProcessing == 0)
//@      && ((w.status == running || w.status == paused) ==> w.eventLoopSignal != nil && $open(w.eventLoopSignal) && $cap(w.eventLoopSignal) >= 1
//@                                     && w.errorChan != nil && $open(w.errorChan) && w.$disp == 1 && w.$listeners == (w.ctx != nil ? 1 : 0))
//@      && (w.status == stopped ==> w.eventLoopSignal == nil && w.errorChan == nil && w.$disp == 0 && w.pool.List.len == 0 && w.$listeners == 0 && w.curProcessing == 0)
//@      && ((w.ctx != nil) <==> (w.cancel != nil)) && ((w.ctx != nil) <==> (w.Configs.ctx != nil)) && (w.ctx != nil ==> $parentOf(w.ctx) == w.Configs.ctx)
//@      && (w.eventLoopSignal == nil || w.eventLoopSignal != w.errorChan)
//@      && (w.$armed > 0 ==> w.status == stopped) && (w.ctx == nil ==> w.$armed == 0)

// ---------------------------------------------------------------- small helpers
//@ func worker.configs
//@   props C14
//@   ensures result == w.Configs

//@ func worker.Metrics
//@   props C17
//@   ensures result == w.metrics

//@ func worker.Errs
//@   props C03
//@   ensures result == w.errorChan

//@ func worker.Context
//@   props C14
//@   ensures result == w.ctx

// numMinIdleWorkers = max(concurrency * ratio / 100, 1), computed without overflow.
//@ func worker.numMinIdleWorkers
//@   props C18
//@   requires w.Configs.minIdleWorkerRatio <= 100
//@   ensures [value] result == max((w.concurrency * w.Configs.minIdleWorkerRatio) / 100, 1)
//@   ensures [min]   result >= 1

// releaseWaiters: when nothing is in flight any more the barrier waiters are woken -- if paused, or if running with nothing pending.
//@ func worker.releaseWaiters
// lost wake-up (finding G4b, fixed): the broadcast is sent with the condition variable's mutex (w.mx) held, so a waiter that has evaluated
// its predicate but is not parked yet cannot miss it
//@   assert [broadcast-under-lock] before call sync.Cond.Broadcast: $held(w.mx)
//@   props C06 CORE
//@   requires w.waiters != nil && RI_Manager($addr(w.queues.Manager))
//@   requires forall i int :: 0 <= i && i < len(w.queues.Manager.items) ==> $lenOf(w.queues.Manager.items[i]) >= 0
//@   requires forall k int {@sumLen(w.queues.Manager.items, k)} :: 0 <= k && k <= len(w.queues.Manager.items) ==> @sumLen(w.queues.Manager.items, k) <= MaxInt
//@   modifies $broadcasts[w.waiters]
//@   ensures [busy]  processing != 0 ==> $broadcasts[w.waiters] == old($broadcasts[w.waiters])
//@   ensures [wake]  processing == 0 && (w.status == paused || (w.status == running && @sumLen(w.queues.Manager.items, len(w.queues.Manager.items)) == 0)) ==> $broadcasts[w.waiters] == old($broadcasts[w.waiters]) + 1
//@   ensures [quiet] processing == 0 && !(w.status == paused || (w.status == running && @sumLen(w.queues.Manager.items, len(w.queues.Manager.items)) == 0)) ==> $broadcasts[w.waiters] == old($broadcasts[w.waiters])

// closeChannels: each non-nil channel is closed exactly once and the field set to nil; the dispatcher on the old signal channel ends.
//@ func worker.closeChannels
//@   props C14 C18 C10 CORE
//@   requires ChanOK(w.eventLoopSignal) && ChanOK(w.errorChan) && (w.eventLoopSignal == nil || w.eventLoopSignal != w.errorChan)
//@   modifies w.eventLoopSignal, w.errorChan, $open(w.eventLoopSignal), $open(w.errorChan), w.$disp
//@   ensures [nil]    w.eventLoopSignal == nil && w.errorChan == nil && w.$disp == 0
//@   ensures [closed] (old(w.eventLoopSignal) != nil ==> !$open(old(w.eventLoopSignal))) && (old(w.errorChan) != nil ==> !$open(old(w.errorChan)))
//@   ghost at return: w.$disp := 0

//@ func worker.stopTickers
//@   props C18 CORE
//@   requires forall t ref {$tickerStopped[t]} :: $tickerStopped[t] >= 0
//@   modifies w.tickers, $tickerStopped, $alloc
//@   ensures [emptied] len(w.tickers) == 0
//@   ensures [stopped] forall k int :: 0 <= k && k < old(len(w.tickers)) ==> $tickerStopped[old(w.tickers[k])] >= 1
//@   loop 1: invariant 0 <= rangeindex + 1 && rangeindex + 1 <= len(w.tickers) && w.tickers == old(w.tickers)
//@            && (forall k int :: 0 <= k && k <= rangeindex ==> $tickerStopped[w.tickers[k]] >= 1) && (forall t ref {$tickerStopped[t]} :: $tickerStopped[t] >= old($tickerStopped)[t])

// ---------------------------------------------------------------- goroutine sites
// One dispatcher is started on the current signal channel (which must exist).
//@ func worker.goEventLoop
//@   props C02 C14 C18 CORE
//@   requires w.eventLoopSignal != nil
//@   modifies $alloc, $spawned["varmq.worker.goEventLoop$1"], w.$disp
//@   ensures [one] w.$disp == old(w.$disp) + 1 && $spawned["varmq.worker.goEventLoop$1"] == old($spawned["varmq.worker.goEventLoop$1"]) + 1
//@   ghost at go varmq.worker.goEventLoop$1: w.$disp := w.$disp + 1

// No idle expiry configured: nothing. Otherwise one ticker is recorded and one reaper goroutine started.
//@ func worker.goRemoveIdleWorkers
//@   props C18
//@   requires w.Configs.idleWorkerExpiryDuration >= 0 && len(w.tickers) < MaxInt
//@   modifies $alloc, $spawned["varmq.worker.goRemoveIdleWorkers$1"], w.$reapers, w.tickers, w.tickers[**], key G:$tickersLive
//@   ensures [off] w.Configs.idleWorkerExpiryDuration == 0 ==> w.$reapers == old(w.$reapers) && len(w.tickers) == old(len(w.tickers))
//@   ensures [on]  w.Configs.idleWorkerExpiryDuration != 0 ==> w.$reapers == old(w.$reapers) + 1 && len(w.tickers) == old(len(w.tickers)) + 1
//@   ghost at go varmq.worker.goRemoveIdleWorkers$1: w.$reapers := w.$reapers + 1

// A listener is started on the current context, if there is one.
//@ func worker.goListenToContext
//@   props C14 C18
//@   modifies $alloc, $spawned["varmq.worker.goListenToContext$1"], w.$listeners
//@   ensures [none] w.ctx == nil ==> w.$listeners == old(w.$listeners)
//@   ensures [one]  w.ctx != nil ==> w.$listeners == old(w.$listeners) + 1
//@   ghost at go varmq.worker.goListenToContext$1: w.$listeners := w.$listeners + 1

// initPoolNode takes a node from the cache, starts its goroutine and hands it to the caller (it is in no list).
//@ func worker.initPoolNode
//@   props C01 C18 CORE
//@   requires w.pool != nil
//@   modifies $alloc, $spawned["pool.Node.Serve"], w.$nodes
//@   ensures [node]  NodeFree(result)
//@   ensures [count] w.$nodes == old(w.$nodes) + 1
//@   ghost at go pool.Node.Serve: w.$nodes := w.$nodes + 1

// ---------------------------------------------------------------- the pool
// freePoolNode: the node (owned by the caller, in no list) is kept idle iff the backlog is at least the limit, or expiry is configured, or
// the idle list is below its minimum; otherwise it is stopped and cached. It never retires the last idle node.
//@ func worker.freePoolNode
//@   props C18 C01 C03 CORE
//@   requires PoolOK(w) && w.pool.List.len < MaxUint32 && QM(w) && NodeFree(node) && w.Configs.minIdleWorkerRatio <= 100 && w.Configs.idleWorkerExpiryDuration >= 0
//@   requires forall i int :: 0 <= i && i < len(w.queues.Manager.items) ==> $lenOf(w.queues.Manager.items[i]) >= 0
//@   requires forall k int {@sumLen(w.queues.Manager.items, k)} :: 0 <= k && k <= len(w.queues.Manager.items) ==> @sumLen(w.queues.Manager.items, k) <= MaxInt
//@   requires w.concurrency * w.Configs.minIdleWorkerRatio <= MaxUint32
//@   modifies linkedlist.Node.next, linkedlist.Node.prev, w.pool.List.len, w.pool.List.$at, w.pool.List.$pos, w.pool.List.$in, node.Value.lastUsed, $alloc, $chan(node.Value.ch), key G:$poolputs
//@   ensures [pool]    PoolOK(w)
//@   ensures [kept]    (@sumLen(w.queues.Manager.items, len(w.queues.Manager.items)) >= w.concurrency || w.Configs.idleWorkerExpiryDuration > 0 || old(w.pool.List.len) < max((w.concurrency * w.Configs.minIdleWorkerRatio) / 100, 1))
//@                       ==> w.pool.List.len == old(w.pool.List.len) + 1 && w.pool.List.$in[node] && $sent(node.Value.ch) == old($sent(node.Value.ch))
//@   ensures [retired] !(@sumLen(w.queues.Manager.items, len(w.queues.Manager.items)) >= w.concurrency || w.Configs.idleWorkerExpiryDuration > 0 || old(w.pool.List.len) < max((w.concurrency * w.Configs.minIdleWorkerRatio) / 100, 1))
//@                       ==> w.pool.List.len == old(w.pool.List.len) && !w.pool.List.$in[node] && $sent(node.Value.ch) == old($sent(node.Value.ch)) + 1
//@   ensures [notlast] old(w.pool.List.len) == 0 ==> w.pool.List.len == 1

// sendToNextChannel: the job goes to exactly one pool node: the idle node popped from the list, or a new one only if the list was empty.
//@ func worker.sendToNextChannel
//@   props C01 C03 C18 CORE
//@   requires PoolOK(w)
//@   modifies linkedlist.Node.next, linkedlist.Node.prev, w.pool.List.len, w.pool.List.$in, $alloc, $spawned["pool.Node.Serve"], w.$nodes, w.$dispatched, key CH:sent<, key CH:rcvd<, key CHV:<
//@   ensures [one]   w.$dispatched == old(w.$dispatched) + 1
//@   ensures [pool]  PoolOK(w) && (old(w.pool.List.len) > 0 ==> w.pool.List.len == old(w.pool.List.len) - 1 && w.$nodes == old(w.$nodes))
//@   ensures [grow]  old(w.pool.List.len) == 0 ==> w.pool.List.len == 0 && w.$nodes == old(w.$nodes) + 1
//@   ghost after call pool.Node.Send: w.$dispatched := w.$dispatched + 1

// stopAndRemoveAllWorkers: the idle list is emptied; every node that was idle gets the stop payload and goes back to the cache.
//@ func worker.stopAndRemoveAllWorkers
//@   props C18 C14 CORE
//@   requires PoolOK(w)
//@   modifies linkedlist.Node.next, linkedlist.Node.prev, w.pool.List.len, w.pool.List.$at, w.pool.List.$pos, w.pool.List.$in, $alloc, key CH:sent<, key CH:rcvd<, key CHV:<, key G:$poolputs
//@   ensures [empty] w.pool.List.len == 0 && PoolOK(w)
//@   loop 1: invariant [range] 0 <= rangeindex + 1 && rangeindex + 1 <= len($ranged) && PoolOK(w) && w.pool.List.len == len($ranged) - (rangeindex + 1)
//@   loop 1: invariant [rest]  forall m int :: rangeindex + 1 <= m && m < len($ranged) ==> $ranged[m] == w.pool.List.$at[m - rangeindex]

// ---------------------------------------------------------------- the dispatch step
// processNextJob: at most one entry is taken from one queue. On an error nothing is dispatched and the in-flight count is unchanged;
// otherwise the entry's job is either skipped because it is already closed (nothing dispatched) or marked processing, given the
// acknowledgement id of this delivery and handed to exactly one pool node -- after all of that bookkeeping.
//@ func worker.processNextJob
//@   props C01 C02 C09 C10 C11 C12 C16 C06 CORE
//@   requires PoolOK(w) && QM(w) && w.curProcessing < MaxUint32 && w.waiters != nil
//@   requires forall k int {@sumLen(w.queues.Manager.items, k)} :: 0 <= k && k <= len(w.queues.Manager.items) ==> @sumLen(w.queues.Manager.items, k) <= MaxInt
//@   requires forall i int :: 0 <= i && i < len(w.queues.Manager.items) ==> $lenOf(w.queues.Manager.items[i]) >= 0 && w.queues.Manager.items[i] != nil
//@   modifies w.queues.Manager.roundRobinIndex, $lenOf, $deq, w.curProcessing, $jstatus, $jackid, $jqueue, $alloc, $spawned["pool.Node.Serve"], w.$nodes, w.$dispatched, $broadcasts[w.waiters],
//@            linkedlist.Node.next, linkedlist.Node.prev, w.pool.List.len, w.pool.List.$in, key CH:sent<, key CH:rcvd<, key CHV:<
//@   ensures [error]   result != nil ==> w.curProcessing == old(w.curProcessing) && w.$dispatched == old(w.$dispatched)
//@   ensures [step]    result == nil ==> (w.$dispatched == old(w.$dispatched) + 1 && w.curProcessing == old(w.curProcessing) + 1)
//@                                    || (w.$dispatched == old(w.$dispatched) && w.curProcessing == old(w.curProcessing))
//@   ensures [taken]   result == nil ==> exists q ref :: $deq(q) == old($deq(q)) + 1
//@   ensures [atmost]  forall q ref {$deq(q)} :: $deq(q) == old($deq(q)) || $deq(q) == old($deq(q)) + 1
//@   ensures [single]  forall p ref, q ref {$deq(p), $deq(q)} :: $deq(p) != old($deq(p)) && $deq(q) != old($deq(q)) ==> p == q
//@   ensures [pool]    PoolOK(w) && QM(w)
//@   ensures [lens]    forall q ref {$lenOf(q)} :: $lenOf(q) == old($lenOf(q)) || ($lenOf(q) == old($lenOf(q)) - 1 && old($lenOf(q)) > 0)
//@   ensures [queues]  w.queues.Manager.items == old(w.queues.Manager.items) && (forall i int :: 0 <= i && i < len(w.queues.Manager.items) ==> w.queues.Manager.items[i] == old(w.queues.Manager.items[i]))
// C06 (finding F5): an entry consumed without being dispatched (closed job, undecodable or foreign entry) may have been the last pending
// one; the barrier waiters are released exactly as after a completed job, or they would sleep on with nothing pending and nothing in flight.
//@   ensures [wake-consumed] w.$dispatched == old(w.$dispatched) && (exists q ref :: $deq(q) == old($deq(q)) + 1) && w.curProcessing == 0
//@                         && (w.status == paused || (w.status == running && @sumLen(w.queues.Manager.items, len(w.queues.Manager.items)) == 0))
//@                         ==> $broadcasts[w.waiters] == old($broadcasts[w.waiters]) + 1
// the in-flight count handed to releaseWaiters is read AFTER the entry was taken off the queue (a snapshot from before the dequeue can
// hide the completion of the last running job: both sides would then leave the wake-up to the other)
//@   ghost entry: $pf := false
//@   ghost after load curProcessing: $pf := true
//@   ghost after call invoke.Dequeue: $pf := false
//@   ghost after call invoke.DequeueWithAckId: $pf := false
//@   assert [release-with-fresh-count] before call varmq.worker.releaseWaiters: $pf
//@   ghost before call varmq.worker.releaseWaiters: assume forall k int {@sumLen(w.queues.Manager.items, k)} :: 0 <= k && k <= len(w.queues.Manager.items) ==> @sumLen(w.queues.Manager.items, k) <= MaxInt
// job.ackId is a plain field handed from the dispatcher to the pool goroutine through the channel send: the dispatcher writes it only on a job
// it has claimed (status already Processing), never on an entry it is about to skip (whose handle may be running Close -> ack() concurrently)
//@   assert [race-ackid-after-claim] before call invoke.setAckId: $jstatus(j) == processing
//@   assert [not-closed]      before call invoke.changeStatus: $jstatus(j) != closed
//@   assert [bookkeeping]     before call varmq.worker.sendToNextChannel: $jstatus(j) == processing && $jackid(j) == ackId && w.curProcessing == old(w.curProcessing) + 1
//@   assert [ackid-of-this]   before call varmq.worker.sendToNextChannel: $impl(IAcknowledgeable, queue) || ackId == ""

// ---------------------------------------------------------------- the pool goroutine's body (one invocation per dispatched job)
// Order of effects: the worker function runs (exactly once, with this job) -> status finished -> Close (acknowledges, releases the handle's
// waiters) -> the node is given back -> the in-flight count drops -> barrier waiters are released if appropriate -> Completed+1 -> the
// dispatcher is signalled. The signal comes after the decrement (otherwise the dispatcher may see no free slot and sleep: lost wake-up).
//@ func worker.initPoolNode$1
//@   props C01 C03 C05 C06 C11 C16 C17 C18 CORE C06@B2 C01@B2 C02@B2
// B2-lite: other pool goroutines finish jobs at the same moment. The in-flight count handed to releaseWaiters must be the value returned by
// this goroutine's own atomic decrement: of two jobs finishing together exactly one then sees zero and releases the barrier waiters. A
// count read before the decrement (or after it) is stale -- both finishers may compute "one left" and nobody broadcasts.
//@   ghost entry: $rem := 0 - 1
//@   ghost after call sync/atomic.Uint32.Add: $rem := result
//@   assert [b2-release-own-dec] before call varmq.worker.releaseWaiters: arg1 == $rem
//@   requires $deref(w) != nil && PoolOK($deref(w)) && QM($deref(w)) && $deref(w).pool.List.len < MaxUint32 && NodeFree($deref(node)) && $deref(w).metrics != nil && $deref(w).waiters != nil
//@   requires $deref(w).workerFunc != nil && $deref(w).curProcessing >= 1 && ChanOK($deref(w).errorChan) && ChanOK($deref(w).eventLoopSignal)
//@   requires $deref(w).Configs.minIdleWorkerRatio <= 100 && $deref(w).Configs.idleWorkerExpiryDuration >= 0 && $deref(w).concurrency * $deref(w).Configs.minIdleWorkerRatio <= MaxUint32
//@   requires forall i int :: 0 <= i && i < len($deref(w).queues.Manager.items) ==> $lenOf($deref(w).queues.Manager.items[i]) >= 0
//@   requires forall k int {@sumLen($deref(w).queues.Manager.items, k)} :: 0 <= k && k <= len($deref(w).queues.Manager.items) ==> @sumLen($deref(w).queues.Manager.items, k) <= MaxInt
//@   modifies $usercalls, $jstatus, $jclosecalls, $acks, $lastAck, $chan($deref(w).errorChan), $chan($deref(w).eventLoopSignal), $deref(w).curProcessing, $broadcasts[$deref(w).waiters],
//@            $completed($deref(w).metrics), $deref(w).$freed, $alloc, key G:$poolputs, $chan($deref(node).Value.ch), $deref(node).Value.lastUsed,
//@            linkedlist.Node.next, linkedlist.Node.prev, $deref(w).pool.List.len, $deref(w).pool.List.$at, $deref(w).pool.List.$pos, $deref(w).pool.List.$in
//@   ensures [ran-once]   $usercalls == old($usercalls) + 1
//@   ensures [closed]     $jclosecalls(j) == old($jclosecalls(j)) + 1
//@   ensures [inflight]   $deref(w).curProcessing == old($deref(w).curProcessing) - 1
//@   ensures [completed]  $completed($deref(w).metrics) == old($completed($deref(w).metrics)) + 1
//@   ensures [freed]      $deref(w).$freed == old($deref(w).$freed) + 1 && PoolOK($deref(w))
//@   ensures [signalled]  $deref(w).eventLoopSignal != nil && $cap($deref(w).eventLoopSignal) >= 1 ==> $len($deref(w).eventLoopSignal) >= 1
//@   ghost after call varmq.worker.freePoolNode: $deref(w).$freed := $deref(w).$freed + 1
//@   assert [finished-after-run]  before call invoke.Close: $usercalls == old($usercalls) + 1 && $jstatus(j) == finished
//@   assert [free-before-dec]     before call sync/atomic.Uint32.Add: $deref(w).$freed == old($deref(w).$freed) + 1 && $jclosecalls(j) == old($jclosecalls(j)) + 1
//@   assert [release-after-dec]   before call varmq.worker.releaseWaiters: $deref(w).curProcessing == old($deref(w).curProcessing) - 1
//@   assert [signal-after-dec]    before call varmq.worker.notifyToPullNextJobs: $deref(w).curProcessing == old($deref(w).curProcessing) - 1 && $deref(w).$freed == old($deref(w).$freed) + 1

// ---------------------------------------------------------------- the dispatcher
// goEventLoop$1: after every wake-up, jobs are dispatched while the worker is running, fewer than `concurrency` are in flight and jobs are
// pending. Every dispatch decision re-reads status, in-flight count, limit and backlog (nothing is cached across a dispatch), errors are
// reported without blocking and do not end the loop; the goroutine returns only when its signal channel is closed.
//@ func worker.goEventLoop$1
//@   props C02 C03 C09 C11 C12 C06 C01 CORE
//@   requires signal != nil && $deref(w) != nil && PoolOK($deref(w)) && QM($deref(w)) && ChanOK($deref(w).errorChan) && $deref(w).waiters != nil
//@   requires forall i int :: 0 <= i && i < len($deref(w).queues.Manager.items) ==> $deref(w).queues.Manager.items[i] != nil
//@   modifies $chan(signal), $open(signal), $chan($deref(w).errorChan), $deref(w).queues.Manager.roundRobinIndex, $lenOf, $deq, $deref(w).curProcessing, $jstatus, $jackid, $jqueue, $alloc,
//@            $spawned["pool.Node.Serve"], $deref(w).$nodes, $deref(w).$dispatched, linkedlist.Node.next, linkedlist.Node.prev, $deref(w).pool.List.len, $deref(w).pool.List.$in,
//@            key CH:sent<, key CH:rcvd<, key CHV:<, $broadcasts[$deref(w).waiters]
//@   requires forall q ref {$lenOf(q)} :: $lenOf(q) >= 0
//@   ensures [exit] !$open(signal)
//@   ghost before call varmq.worker.processNextJob: assume forall k int {@sumLen($deref(w).queues.Manager.items, k)} :: 0 <= k && k <= len($deref(w).queues.Manager.items) ==> @sumLen($deref(w).queues.Manager.items, k) <= MaxInt
//@   ghost before call helpers.Manager.Len: assume forall k int {@sumLen($deref(w).queues.Manager.items, k)} :: 0 <= k && k <= len($deref(w).queues.Manager.items) ==> @sumLen($deref(w).queues.Manager.items, k) <= MaxInt
//@   loop 1: invariant [outer] PoolOK($deref(w)) && QM($deref(w)) && ChanOK($deref(w).errorChan) && (forall q ref {$lenOf(q)} :: $lenOf(q) >= 0) && (forall i int :: 0 <= i && i < len($deref(w).queues.Manager.items) ==> $deref(w).queues.Manager.items[i] != nil)
//@   loop 2: invariant [inner] PoolOK($deref(w)) && QM($deref(w)) && ChanOK($deref(w).errorChan) && (forall q ref {$lenOf(q)} :: $lenOf(q) >= 0) && (forall i int :: 0 <= i && i < len($deref(w).queues.Manager.items) ==> $deref(w).queues.Manager.items[i] != nil)
//@   ghost entry: $sfresh := false
//@   ghost entry: $cfresh := false
//@   ghost entry: $pfresh := false
//@   ghost after load status: $sfresh := true
//@   ghost after load concurrency: $cfresh := true
//@   ghost after load curProcessing: $pfresh := true
//@   assert [guard]       before call varmq.worker.processNextJob: $deref(w).status == running && $deref(w).curProcessing < $deref(w).concurrency
//@                          && @sumLen($deref(w).queues.Manager.items, len($deref(w).queues.Manager.items)) > 0
//@   assert [guard-fresh] before call varmq.worker.processNextJob: $sfresh && $cfresh && $pfresh
//@   assert [sleep-only-when-idle] at backedge loop1: !($deref(w).status == running && $deref(w).curProcessing < $deref(w).concurrency
//@                          && @sumLen($deref(w).queues.Manager.items, len($deref(w).queues.Manager.items)) > 0)
// lost wake-up: every signal the dispatcher consumes is followed by a fresh evaluation of the guard before it parks again
//@   ghost after recv: $sfresh := false
//@   assert [recheck-after-wake] at backedge loop1: $sfresh
//@   ghost after call varmq.worker.processNextJob: $sfresh := false
//@   ghost after call varmq.worker.processNextJob: $cfresh := false
//@   ghost after call varmq.worker.processNextJob: $pfresh := false

// ---------------------------------------------------------------- barriers
// The wait predicate (true = keep waiting): running: something pending or in flight; paused/stopped: something in flight; else false.
//@ func worker.WaitUntilFinished$1
//@   props C06
//@   requires $deref(w) != nil && RI_Manager($addr($deref(w).queues.Manager)) && (forall q ref {$lenOf(q)} :: $lenOf(q) >= 0)
//@   ensures [running] $deref(w).status == running ==> result == (@sumLen($deref(w).queues.Manager.items, len($deref(w).queues.Manager.items)) > 0 || $deref(w).curProcessing > 0)
//@   ensures [parked]  ($deref(w).status == paused || $deref(w).status == stopped) ==> result == ($deref(w).curProcessing > 0)
//@   ensures [other]   $deref(w).status == initiated ==> !result
//@   ghost before call helpers.Manager.Len: assume forall k int {@sumLen($deref(w).queues.Manager.items, k)} :: 0 <= k && k <= len($deref(w).queues.Manager.items) ==> @sumLen($deref(w).queues.Manager.items, k) <= MaxInt

// WaitUntilFinished returns only when the wait predicate is false. While it is parked other goroutines may complete jobs, dispatch jobs and
// accept submissions (the `modifies` list is what they may change; `rely` is what they preserve); lifecycle calls are not interleaved (SEQ).
//@ func worker.WaitUntilFinished
// the wait predicate is evaluated with the condition variable's mutex held (otherwise the last broadcast can fall between the check and the park)
//@   assert [predicate-under-lock] before call varmq.worker.WaitUntilFinished$1: $held(w.mx)
//@   props C06 C09 C14 CORE
//@   requires w != nil && w.waiters != nil && PoolOK(w) && QM(w) && (forall q ref {$lenOf(q)} :: $lenOf(q) >= 0)
//@   modifies w.curProcessing, $lenOf, $alloc, linkedlist.Node.next, linkedlist.Node.prev, w.pool.List.len, w.pool.List.$at, w.pool.List.$pos, w.pool.List.$in, key CH:sent<, key CH:rcvd<, key CHV:<, w.$nodes, w.$dispatched, w.$freed
//@   rely  PoolOK(w) && (forall q ref {$lenOf(q)} :: $lenOf(q) >= 0)
// B2-lite: while the caller is parked in the condition wait, other goroutines may issue lifecycle calls: the status it finds afterwards is arbitrary
//@   modifies [B2] w.status
//@   ensures [B2] [b2-range] 0 <= w.status && w.status <= stopped
//@   ensures [barrier-running] w.status == running ==> @sumLen(w.queues.Manager.items, len(w.queues.Manager.items)) <= 0 && w.curProcessing == 0
//@   ensures [barrier-parked]  (w.status == paused || w.status == stopped) ==> w.curProcessing == 0
//@   ensures [kept]            PoolOK(w) && (forall q ref {$lenOf(q)} :: $lenOf(q) >= 0)
//@   ensures [noop]            (w.status == initiated || ((w.status == paused || w.status == stopped) && old(w.curProcessing) == 0)) ==> w.curProcessing == old(w.curProcessing) && w.pool.List.len == old(w.pool.List.len)
//@   loop 1: invariant PoolOK(w) && (forall q ref {$lenOf(q)} :: $lenOf(q) >= 0)
//@   loop 1: invariant [noop-initiated] w.status == initiated ==> w.curProcessing == old(w.curProcessing) && w.pool.List.len == old(w.pool.List.len)
//@   loop 1: invariant [noop-parked]    (w.status == paused || w.status == stopped) && old(w.curProcessing) == 0 ==> w.curProcessing == 0 && w.pool.List.len == old(w.pool.List.len)

// ---------------------------------------------------------------- lifecycle (C14): every call from every invariant state
// start: from Running / Paused / Stopped it refuses and changes nothing; from Initiated it creates exactly one dispatcher, the reaper (iff
// idle expiry), the context listener (iff a context), the first idle pool node, stores Running and raises the initial signal.
//@ func worker.start
//@   props C14 C02 C03 C18 C09 CORE
//@   requires RI_worker(w) && w.Configs.idleWorkerExpiryDuration >= 0 && len(w.tickers) < MaxInt
//@   modifies w.status, $alloc, $spawned, w.$disp, w.$reapers, w.$listeners, w.$nodes, w.tickers, w.tickers[**], key G:$tickersLive, $chan(w.eventLoopSignal),
//@            linkedlist.Node.next, linkedlist.Node.prev, w.pool.List.len, w.pool.List.$at, w.pool.List.$pos, w.pool.List.$in
//@   ensures [running]   old(w.status) == running ==> result == ErrRunningWorker && w.status == running && w.$disp == old(w.$disp) && w.$nodes == old(w.$nodes) && w.pool.List.len == old(w.pool.List.len)
//@   ensures [parked]    (old(w.status) == paused || old(w.status) == stopped) ==> result == ErrNotRunningWorker && w.status == old(w.status) && w.$disp == old(w.$disp) && w.$nodes == old(w.$nodes) && w.pool.List.len == old(w.pool.List.len)
//@   ensures [started]   old(w.status) == initiated ==> result == nil && w.status == running && w.$disp == 1 && w.pool.List.len == 1 && $len(w.eventLoopSignal) >= 1
//@   ensures [resources] old(w.status) == initiated ==> w.$reapers == old(w.$reapers) + (w.Configs.idleWorkerExpiryDuration != 0 ? 1 : 0) && w.$nodes == old(w.$nodes) + 1
//@   ensures [ri]        RI_worker(w)

//@ func worker.Pause
//@   props C14 C09 CORE
//@   modifies w.status
//@   ensures [running]   old(w.status) == running ==> result == nil && w.status == paused
//@   ensures [parked]    (old(w.status) == paused || old(w.status) == stopped) ==> result == nil && w.status == old(w.status)
//@   ensures [initiated] old(w.status) == initiated ==> result == ErrNotRunningWorker && w.status == initiated

//@ func worker.PauseAndWait
//@   props C14 C09 C06 CORE
//@   requires w != nil && w.waiters != nil && PoolOK(w) && QM(w) && (forall q ref {$lenOf(q)} :: $lenOf(q) >= 0) && 0 <= w.status && w.status <= stopped
//@   modifies w.status, w.curProcessing, $lenOf, $alloc, linkedlist.Node.next, linkedlist.Node.prev, w.pool.List.len, w.pool.List.$at, w.pool.List.$pos, w.pool.List.$in, key CH:sent<, key CH:rcvd<, key CHV:<, w.$nodes, w.$dispatched, w.$freed
//@   ensures [SEQ] [running]   old(w.status) == running ==> result == nil && w.status == paused && w.curProcessing == 0
//@   ensures [SEQ] [parked]    (old(w.status) == paused || old(w.status) == stopped) ==> result == nil && w.status == old(w.status) && w.curProcessing == 0
//@   ensures [SEQ] [initiated] old(w.status) == initiated ==> result == ErrNotRunningWorker && w.status == initiated && w.curProcessing == old(w.curProcessing)
//@   ensures [B2] [b2-range]   0 <= w.status && w.status <= stopped && (old(w.status) == initiated ==> result == ErrNotRunningWorker) && (old(w.status) != initiated ==> result == nil)
//@   ensures [kept]      PoolOK(w) && (forall q ref {$lenOf(q)} :: $lenOf(q) >= 0)

// Resume: Paused -> Running (and the dispatcher is signalled); Initiated -> start(); Running -> ErrRunningWorker; Stopped -> ErrNotRunningWorker.
// It never creates a second dispatcher.
//@ func worker.Resume
//@   props C14 C09 C02 C03 CORE
//@   requires RI_worker(w) && w.Configs.idleWorkerExpiryDuration >= 0 && len(w.tickers) < MaxInt
//@   modifies w.status, $alloc, $spawned, w.$disp, w.$reapers, w.$listeners, w.$nodes, w.tickers, w.tickers[**], key G:$tickersLive, $chan(w.eventLoopSignal),
//@            linkedlist.Node.next, linkedlist.Node.prev, w.pool.List.len, w.pool.List.$at, w.pool.List.$pos, w.pool.List.$in
//@   ensures [stopped]   old(w.status) == stopped ==> result == ErrNotRunningWorker && w.status == stopped
//@   ensures [running]   old(w.status) == running ==> result == ErrRunningWorker && w.status == running
//@   ensures [paused]    old(w.status) == paused ==> result == nil && w.status == running && $len(w.eventLoopSignal) >= 1 && w.$disp == old(w.$disp) && w.$nodes == old(w.$nodes)
//@   ensures [initiated] old(w.status) == initiated ==> result == nil && w.status == running && w.$disp == 1
//@   ensures [ri]        RI_worker(w)

// Stop: Running/Paused -> Stopped after waiting for the in-flight jobs; Stopped -> nil; Initiated -> ErrNotRunningWorker. Afterwards the
// channels are closed and nil, no dispatcher, no ticker and no idle pool node is left and the context (if any) is cancelled: every
// goroutine the worker started has been told to exit.
//@ func worker.Stop
//@   props C14 C18 C09 C06 C14@B2 CORE
// B2-lite (C14): whatever lifecycle calls interleave with the waits inside Stop, a Stop that started from Running/Paused ends in Stopped
//@   ensures [B2] [b2-stopped] (old(w.status) == running || old(w.status) == paused) ==> result == nil && w.status == stopped
//@   requires RI_worker(w) && (forall q ref {$lenOf(q)} :: $lenOf(q) >= 0) && (forall t ref {$tickerStopped[t]} :: $tickerStopped[t] >= 0)
//@   modifies w.status, w.curProcessing, $lenOf, $alloc, linkedlist.Node.next, linkedlist.Node.prev, w.pool.List.len, w.pool.List.$at, w.pool.List.$pos, w.pool.List.$in,
//@            key CH:sent<, key CH:rcvd<, key CHV:<, w.$nodes, w.$dispatched, w.$freed, w.tickers, $tickerStopped, w.eventLoopSignal, w.errorChan,
//@            $open(w.eventLoopSignal), $open(w.errorChan), w.$disp, key G:$poolputs, $usercalls, w.$listeners, w.$armed
//@   ensures [stopped]   old(w.status) == stopped ==> result == nil && w.status == stopped
//@   ensures [initiated] old(w.status) == initiated ==> result == ErrNotRunningWorker && w.status == initiated
//@   ensures [stops]     (old(w.status) == running || old(w.status) == paused) ==> result == nil && w.status == stopped && w.curProcessing == 0
//@                          && w.eventLoopSignal == nil && w.errorChan == nil && w.$disp == 0 && w.pool.List.len == 0 && len(w.tickers) == 0
//@   ensures [reapers@C18]   (old(w.status) == running || old(w.status) == paused) ==> w.$reapers == 0
//@   ensures [ri]        RI_worker(w)
//@   ghost after call funcvalue when w.$listeners > 0: w.$armed := w.$armed + w.$listeners
//@   ghost after call funcvalue: w.$listeners := 0

//@ func worker.WaitAndStop
//@   props C14 C06 CORE
//@   requires RI_worker(w) && (forall q ref {$lenOf(q)} :: $lenOf(q) >= 0) && (forall t ref {$tickerStopped[t]} :: $tickerStopped[t] >= 0)
//@   modifies w.status, w.curProcessing, $lenOf, $alloc, linkedlist.Node.next, linkedlist.Node.prev, w.pool.List.len, w.pool.List.$at, w.pool.List.$pos, w.pool.List.$in,
//@            key CH:sent<, key CH:rcvd<, key CHV:<, w.$nodes, w.$dispatched, w.$freed, w.tickers, $tickerStopped, w.eventLoopSignal, w.errorChan,
//@            $open(w.eventLoopSignal), $open(w.errorChan), w.$disp, key G:$poolputs, $usercalls, w.$listeners, w.$armed
//@   ensures [stopped]   old(w.status) == stopped ==> result == nil && w.status == stopped
//@   ensures [initiated] old(w.status) == initiated ==> result == ErrNotRunningWorker && w.status == initiated
//@   ensures [stops]     (old(w.status) == running || old(w.status) == paused) ==> result == nil && w.status == stopped && w.curProcessing == 0
//@   ensures [ri]        RI_worker(w)

// Restart: from any state the worker ends up Running with fresh channels, exactly one dispatcher, a fresh context (if configured) whose
// listener is the only one, and nothing left armed that could stop it behind the caller's back.
//@ func worker.Restart
//@   props C14 C18 C02 C09 C14@B2 CORE
//@   ensures [B2] [b2-running] result == nil ==> w.status == running
//@   requires RI_worker(w) && (forall q ref {$lenOf(q)} :: $lenOf(q) >= 0) && w.Configs.idleWorkerExpiryDuration >= 0 && len(w.tickers) < MaxInt
//@   modifies w.status, w.curProcessing, $lenOf, $alloc, linkedlist.Node.next, linkedlist.Node.prev, w.pool.List.len, w.pool.List.$at, w.pool.List.$pos, w.pool.List.$in,
//@            key CH:sent<, key CH:rcvd<, key CHV:<, w.$nodes, w.$dispatched, w.$freed, w.tickers, w.tickers[**], w.eventLoopSignal, w.errorChan, w.ctx, w.cancel,
//@            $open(w.eventLoopSignal), $open(w.errorChan), w.$disp, key G:$poolputs, $usercalls, w.$listeners, w.$armed, $spawned, w.$reapers, key G:$tickersLive, w.$lockEpoch, w.$cancelEpoch
//@   ensures [running]  result == nil && w.status == running
//@   ensures [ri]       RI_worker(w)
//@   ensures [reapers@C18]  w.$reapers <= 1
//@   ensures [one]      w.$disp == 1 && w.pool.List.len == 1 && $len(w.eventLoopSignal) >= 1
//@   ghost after call funcvalue when w.$listeners > 0: w.$armed := w.$armed + w.$listeners
//@   ghost after call funcvalue: w.$listeners := 0
//@   ghost after store ctx: w.$armed := 0
// The old context is cancelled and replaced inside ONE write-locked section of w.mx: the old listener (which re-reads w.ctx under RLock) can
// then never see its own, already cancelled context still installed and stop the restarted worker.
//@   ghost after call sync.RWMutex.Unlock: w.$lockEpoch := w.$lockEpoch + 1
//@   ghost after call funcvalue: w.$cancelEpoch := w.$lockEpoch
//@   assert [cancel-locked] after call funcvalue: $held(w.mx)
//@   assert [rearm-atomic] after store ctx: $held(w.mx) && w.$cancelEpoch == w.$lockEpoch

// TunePool: only a running worker can be tuned; the limit becomes withSafeConcurrency(n); growing raises the signal; shrinking (without
// idle expiry) retires at most old-new idle workers and never goes below the idle minimum that was available.
//@ func worker.TunePool
//@   props C14 C18 C02 C03 CORE C18@B2 C01@B2
// B2: a node is stopped and cached only when this goroutine took it out of the idle list itself (PopBack returned it, or Remove returned true)
//@   ghost entry: $own := false
//@   ghost after call linkedlist.List.PopBack: $own := result != nil
//@   ghost after call linkedlist.List.Remove: $own := $own || result
//@   ghost after call linkedlist.List.Back: $own := false
//@   assert [b2-own-stop] before call pool.Node.Stop: $own
//@   assert [b2-own-put]  before call sync.Pool.Put: $own
//@   requires RI_worker(w) && w.Configs.minIdleWorkerRatio <= 100 && w.concurrency * w.Configs.minIdleWorkerRatio <= MaxUint32
//@   modifies w.concurrency, $chan(w.eventLoopSignal), $alloc, linkedlist.Node.next, linkedlist.Node.prev, w.pool.List.len, w.pool.List.$at, w.pool.List.$pos, w.pool.List.$in,
//@            key CH:sent<, key CH:rcvd<, key CHV:<, key G:$poolputs
//@   ensures [notrunning] old(w.status) != running ==> result == ErrNotRunningWorker && w.concurrency == old(w.concurrency) && w.pool.List.len == old(w.pool.List.len)
//@   ensures [tuned]      result == nil ==> w.concurrency >= 1 && w.concurrency != old(w.concurrency) && (concurrency >= 1 && concurrency <= MaxUint32 ==> w.concurrency == concurrency)
//@   ensures [same]       result == ErrSameConcurrency ==> w.concurrency == old(w.concurrency) && w.pool.List.len == old(w.pool.List.len)
//@   ensures [grow]       result == nil && w.concurrency > old(w.concurrency) ==> $len(w.eventLoopSignal) >= 1 && w.pool.List.len == old(w.pool.List.len)
//@   ensures [shrink]     result == nil && w.concurrency < old(w.concurrency) ==> w.pool.List.len <= old(w.pool.List.len) && old(w.pool.List.len) - w.pool.List.len <= old(w.concurrency) - w.concurrency
//@   ensures [minidle]    result == nil && w.concurrency < old(w.concurrency) ==> w.pool.List.len >= min(old(w.pool.List.len), max((w.concurrency * w.Configs.minIdleWorkerRatio) / 100, 1))
//@   ensures [ri]         RI_worker(w)
//@   loop 1: invariant [pool] PoolOK(w) && shrinkPoolSize >= 0 && shrinkPoolSize <= oldConcurrency - safeConcurrency && w.pool.List.len <= old(w.pool.List.len)
//@                              && old(w.pool.List.len) - w.pool.List.len == (oldConcurrency - safeConcurrency) - shrinkPoolSize
//@   loop 1: invariant [min]  w.pool.List.len >= min(old(w.pool.List.len), minIdleWorkers) && minIdleWorkers == max((w.concurrency * w.Configs.minIdleWorkerRatio) / 100, 1) && w.concurrency == safeConcurrency

// ---------------------------------------------------------------- construction
// A new worker is Initiated: both channels exist and are open (the signal channel is buffered, so a wake-up cannot be lost), no
// goroutine has been started, the idle list is empty, the limit is the configured one (>= 1), and ctx/cancel exist iff a context was configured.
//@ func newWorker
//@   props C14 C02 C03 C18 CORE
//@   requires wf != nil
//@   modifies $usercalls, $alloc
//@   ensures [fresh] $fresh(result) && result.status == initiated && result.$disp == 0 && result.$listeners == 0 && result.$armed == 0 && result.$reapers == 0 && result.curProcessing == 0
//@   ensures [ri]    RI_worker(result)
//@   ghost at return: result.$disp := 0
//@   ghost at return: result.$listeners := 0
//@   ghost at return: result.$armed := 0
//@   ghost at return: result.$reapers := 0

//@ func newErrWorker
//@   props C14 C02 C03 C18 CORE
//@   requires wf != nil
//@   modifies $usercalls, $alloc
//@   ensures [fresh] $fresh(result) && result.status == initiated && result.$disp == 0 && result.$listeners == 0 && result.$armed == 0 && result.$reapers == 0 && result.curProcessing == 0
//@   ensures [ri]    RI_worker(result)
//@   ghost at return: result.$disp := 0
//@   ghost at return: result.$listeners := 0
//@   ghost at return: result.$armed := 0
//@   ghost at return: result.$reapers := 0

//@ func newResultWorker
//@   props C14 C02 C03 C18 CORE
//@   requires wf != nil
//@   modifies $usercalls, $alloc
//@   ensures [fresh] $fresh(result) && result.status == initiated && result.$disp == 0 && result.$listeners == 0 && result.$armed == 0 && result.$reapers == 0 && result.curProcessing == 0
//@   ensures [ri]    RI_worker(result)
//@   ghost at return: result.$disp := 0
//@   ghost at return: result.$listeners := 0
//@   ghost at return: result.$armed := 0
//@   ghost at return: result.$reapers := 0

// The context listener: when the (captured) context is done it calls Stop once -- unless the worker's context has been replaced meanwhile
// (by Restart): a listener of a replaced context does nothing. This is what allows Restart to forget the listeners it armed ($armed := 0).
//@ func worker.goListenToContext$1
//@   props C14
//@   requires c != nil && $deref(w) != nil && RI_worker($deref(w)) && (forall q ref {$lenOf(q)} :: $lenOf(q) >= 0) && (forall t ref {$tickerStopped[t]} :: $tickerStopped[t] >= 0)
//@   modifies $deref(w).status, $deref(w).curProcessing, $lenOf, $alloc, linkedlist.Node.next, linkedlist.Node.prev, $deref(w).pool.List.len, $deref(w).pool.List.$at, $deref(w).pool.List.$pos, $deref(w).pool.List.$in,
//@            key CH:sent<, key CH:rcvd<, key CHV:<, key CH:open<, $deref(w).$nodes, $deref(w).$dispatched, $deref(w).$freed, $deref(w).tickers, $tickerStopped, $deref(w).eventLoopSignal, $deref(w).errorChan,
//@            $deref(w).$disp, key G:$poolputs, $usercalls, $deref(w).$listeners, $deref(w).$armed
//@   ensures [current] $deref(w).ctx == c && (old($deref(w).status) == running || old($deref(w).status) == paused) ==> $deref(w).status == stopped
//@   ensures [stale]   $deref(w).ctx != c ==> $deref(w).status == old($deref(w).status) && $deref(w).eventLoopSignal == old($deref(w).eventLoopSignal) && $deref(w).$disp == old($deref(w).$disp)
//@   ghost after call invoke.Done: assume result != $deref(w).eventLoopSignal

// ---------------------------------------------------------------- binders (worker_binder.go)
// Binding a queue registers it exactly once and starts the worker only if it was Initiated; a Running worker stays as it is (start refuses).
// start() must not be reached from Paused / Stopped (it would report Running on a second dispatcher / on nil channels).
//@ func workerBinder.handleQueueSubscription
//@   props C14 C17 C03
//@   requires wb.worker != nil && wb.worker.metrics != nil && ChanOK(wb.worker.eventLoopSignal)
//@   modifies $submitted(wb.worker.metrics), $chan(wb.worker.eventLoopSignal)
//@   ensures [enqueued] action == "enqueued" ==> $submitted(wb.worker.metrics) == old($submitted(wb.worker.metrics)) + 1
//@                        && (wb.worker.eventLoopSignal != nil && $cap(wb.worker.eventLoopSignal) >= 1 ==> $len(wb.worker.eventLoopSignal) >= 1)
//@   ensures [other]    action != "enqueued" ==> $submitted(wb.worker.metrics) == old($submitted(wb.worker.metrics)) && $sent(wb.worker.eventLoopSignal) == old($sent(wb.worker.eventLoopSignal))

//@ func workerBinder.WithQueue
//@   assert [registered-before-start] before call varmq.worker.start: len(wb.worker.queues.Manager.items) == old(len(wb.worker.queues.Manager.items)) + 1
//@   props C14 C15 C02 C18 C09
//@   requires wb.worker != nil && RI_worker(wb.worker) && len(wb.worker.queues.Manager.items) < MaxInt - 2 && wb.worker.Configs.idleWorkerExpiryDuration >= 0 && len(wb.worker.tickers) < MaxInt && q != nil
//@   modifies wb.worker.status, $alloc, $spawned, wb.worker.$disp, wb.worker.$reapers, wb.worker.$listeners, wb.worker.$nodes, wb.worker.tickers, wb.worker.tickers[**], key G:$tickersLive, $chan(wb.worker.eventLoopSignal), linkedlist.Node.next, linkedlist.Node.prev, wb.worker.pool.List.len, wb.worker.pool.List.$at, wb.worker.pool.List.$pos, wb.worker.pool.List.$in, wb.worker.queues.Manager.items, wb.worker.queues.Manager.items[**]
//@   ensures [once]      len(wb.worker.queues.Manager.items) == old(len(wb.worker.queues.Manager.items)) + 1 && wb.worker.queues.Manager.items[old(len(wb.worker.queues.Manager.items))] == q
//@   ensures [kept]      forall i int :: 0 <= i && i < old(len(wb.worker.queues.Manager.items)) ==> wb.worker.queues.Manager.items[i] == old(wb.worker.queues.Manager.items[i])
//@   ensures [initiated] old(wb.worker.status) == initiated ==> wb.worker.status == running && wb.worker.$disp == 1
//@   ensures [otherwise] old(wb.worker.status) != initiated ==> wb.worker.status == old(wb.worker.status) && wb.worker.$disp == old(wb.worker.$disp) && wb.worker.$nodes == old(wb.worker.$nodes)
//@   ensures [ri]        RI_worker(wb.worker)

//@ func workerBinder.BindQueue
//@   props C14 C15 C02 C18 C09
//@   requires wb.worker != nil && RI_worker(wb.worker) && len(wb.worker.queues.Manager.items) < MaxInt - 2 && wb.worker.Configs.idleWorkerExpiryDuration >= 0 && len(wb.worker.tickers) < MaxInt
//@   modifies wb.worker.status, $alloc, $spawned, wb.worker.$disp, wb.worker.$reapers, wb.worker.$listeners, wb.worker.$nodes, wb.worker.tickers, wb.worker.tickers[**], key G:$tickersLive, $chan(wb.worker.eventLoopSignal), linkedlist.Node.next, linkedlist.Node.prev, wb.worker.pool.List.len, wb.worker.pool.List.$at, wb.worker.pool.List.$pos, wb.worker.pool.List.$in, wb.worker.queues.Manager.items, wb.worker.queues.Manager.items[**]
//@   ensures [once]      len(wb.worker.queues.Manager.items) == old(len(wb.worker.queues.Manager.items)) + 1
//@   ensures [kept]      forall i int :: 0 <= i && i < old(len(wb.worker.queues.Manager.items)) ==> wb.worker.queues.Manager.items[i] == old(wb.worker.queues.Manager.items[i])
//@   ensures [initiated] old(wb.worker.status) == initiated ==> wb.worker.status == running && wb.worker.$disp == 1
//@   ensures [otherwise] old(wb.worker.status) != initiated ==> wb.worker.status == old(wb.worker.status) && wb.worker.$disp == old(wb.worker.$disp) && wb.worker.$nodes == old(wb.worker.$nodes)
//@   ensures [ri]        RI_worker(wb.worker)

//@ func workerBinder.WithPriorityQueue
//@   assert [registered-before-start] before call varmq.worker.start: len(wb.worker.queues.Manager.items) == old(len(wb.worker.queues.Manager.items)) + 1
//@   props C14 C15 C02 C18 C09
//@   requires wb.worker != nil && RI_worker(wb.worker) && len(wb.worker.queues.Manager.items) < MaxInt - 2 && wb.worker.Configs.idleWorkerExpiryDuration >= 0 && len(wb.worker.tickers) < MaxInt && pq != nil
//@   modifies wb.worker.status, $alloc, $spawned, wb.worker.$disp, wb.worker.$reapers, wb.worker.$listeners, wb.worker.$nodes, wb.worker.tickers, wb.worker.tickers[**], key G:$tickersLive, $chan(wb.worker.eventLoopSignal), linkedlist.Node.next, linkedlist.Node.prev, wb.worker.pool.List.len, wb.worker.pool.List.$at, wb.worker.pool.List.$pos, wb.worker.pool.List.$in, wb.worker.queues.Manager.items, wb.worker.queues.Manager.items[**]
//@   ensures [once]      len(wb.worker.queues.Manager.items) == old(len(wb.worker.queues.Manager.items)) + 1 && wb.worker.queues.Manager.items[old(len(wb.worker.queues.Manager.items))] == pq
//@   ensures [kept]      forall i int :: 0 <= i && i < old(len(wb.worker.queues.Manager.items)) ==> wb.worker.queues.Manager.items[i] == old(wb.worker.queues.Manager.items[i])
//@   ensures [initiated] old(wb.worker.status) == initiated ==> wb.worker.status == running && wb.worker.$disp == 1
//@   ensures [otherwise] old(wb.worker.status) != initiated ==> wb.worker.status == old(wb.worker.status) && wb.worker.$disp == old(wb.worker.$disp) && wb.worker.$nodes == old(wb.worker.$nodes)
//@   ensures [ri]        RI_worker(wb.worker)

//@ func workerBinder.BindPriorityQueue
//@   props C14 C15 C02 C18 C09
//@   requires wb.worker != nil && RI_worker(wb.worker) && len(wb.worker.queues.Manager.items) < MaxInt - 2 && wb.worker.Configs.idleWorkerExpiryDuration >= 0 && len(wb.worker.tickers) < MaxInt
//@   modifies wb.worker.status, $alloc, $spawned, wb.worker.$disp, wb.worker.$reapers, wb.worker.$listeners, wb.worker.$nodes, wb.worker.tickers, wb.worker.tickers[**], key G:$tickersLive, $chan(wb.worker.eventLoopSignal), linkedlist.Node.next, linkedlist.Node.prev, wb.worker.pool.List.len, wb.worker.pool.List.$at, wb.worker.pool.List.$pos, wb.worker.pool.List.$in, wb.worker.queues.Manager.items, wb.worker.queues.Manager.items[**]
//@   ensures [once]      len(wb.worker.queues.Manager.items) == old(len(wb.worker.queues.Manager.items)) + 1
//@   ensures [kept]      forall i int :: 0 <= i && i < old(len(wb.worker.queues.Manager.items)) ==> wb.worker.queues.Manager.items[i] == old(wb.worker.queues.Manager.items[i])
//@   ensures [initiated] old(wb.worker.status) == initiated ==> wb.worker.status == running && wb.worker.$disp == 1
//@   ensures [otherwise] old(wb.worker.status) != initiated ==> wb.worker.status == old(wb.worker.status) && wb.worker.$disp == old(wb.worker.$disp) && wb.worker.$nodes == old(wb.worker.$nodes)
//@   ensures [ri]        RI_worker(wb.worker)

//@ func errWorkerBinder.WithQueue
//@   props C14 C15 C02 C18 C09
//@   requires ewb.worker != nil && RI_worker(ewb.worker) && len(ewb.worker.queues.Manager.items) < MaxInt - 2 && ewb.worker.Configs.idleWorkerExpiryDuration >= 0 && len(ewb.worker.tickers) < MaxInt && q != nil
//@   modifies ewb.worker.status, $alloc, $spawned, ewb.worker.$disp, ewb.worker.$reapers, ewb.worker.$listeners, ewb.worker.$nodes, ewb.worker.tickers, ewb.worker.tickers[**], key G:$tickersLive, $chan(ewb.worker.eventLoopSignal), linkedlist.Node.next, linkedlist.Node.prev, ewb.worker.pool.List.len, ewb.worker.pool.List.$at, ewb.worker.pool.List.$pos, ewb.worker.pool.List.$in, ewb.worker.queues.Manager.items, ewb.worker.queues.Manager.items[**]
//@   ensures [once]      len(ewb.worker.queues.Manager.items) == old(len(ewb.worker.queues.Manager.items)) + 1 && ewb.worker.queues.Manager.items[old(len(ewb.worker.queues.Manager.items))] == q
//@   ensures [kept]      forall i int :: 0 <= i && i < old(len(ewb.worker.queues.Manager.items)) ==> ewb.worker.queues.Manager.items[i] == old(ewb.worker.queues.Manager.items[i])
//@   ensures [initiated] old(ewb.worker.status) == initiated ==> ewb.worker.status == running && ewb.worker.$disp == 1
//@   ensures [otherwise] old(ewb.worker.status) != initiated ==> ewb.worker.status == old(ewb.worker.status) && ewb.worker.$disp == old(ewb.worker.$disp) && ewb.worker.$nodes == old(ewb.worker.$nodes)
//@   ensures [ri]        RI_worker(ewb.worker)

//@ func errWorkerBinder.BindQueue
//@   props C14 C15 C02 C18 C09
//@   requires ewb.worker != nil && RI_worker(ewb.worker) && len(ewb.worker.queues.Manager.items) < MaxInt - 2 && ewb.worker.Configs.idleWorkerExpiryDuration >= 0 && len(ewb.worker.tickers) < MaxInt
//@   modifies ewb.worker.status, $alloc, $spawned, ewb.worker.$disp, ewb.worker.$reapers, ewb.worker.$listeners, ewb.worker.$nodes, ewb.worker.tickers, ewb.worker.tickers[**], key G:$tickersLive, $chan(ewb.worker.eventLoopSignal), linkedlist.Node.next, linkedlist.Node.prev, ewb.worker.pool.List.len, ewb.worker.pool.List.$at, ewb.worker.pool.List.$pos, ewb.worker.pool.List.$in, ewb.worker.queues.Manager.items, ewb.worker.queues.Manager.items[**]
//@   ensures [once]      len(ewb.worker.queues.Manager.items) == old(len(ewb.worker.queues.Manager.items)) + 1
//@   ensures [kept]      forall i int :: 0 <= i && i < old(len(ewb.worker.queues.Manager.items)) ==> ewb.worker.queues.Manager.items[i] == old(ewb.worker.queues.Manager.items[i])
//@   ensures [initiated] old(ewb.worker.status) == initiated ==> ewb.worker.status == running && ewb.worker.$disp == 1
//@   ensures [otherwise] old(ewb.worker.status) != initiated ==> ewb.worker.status == old(ewb.worker.status) && ewb.worker.$disp == old(ewb.worker.$disp) && ewb.worker.$nodes == old(ewb.worker.$nodes)
//@   ensures [ri]        RI_worker(ewb.worker)

//@ func errWorkerBinder.WithPriorityQueue
//@   props C14 C15 C02 C18 C09
//@   requires ewb.worker != nil && RI_worker(ewb.worker) && len(ewb.worker.queues.Manager.items) < MaxInt - 2 && ewb.worker.Configs.idleWorkerExpiryDuration >= 0 && len(ewb.worker.tickers) < MaxInt && pq != nil
//@   modifies ewb.worker.status, $alloc, $spawned, ewb.worker.$disp, ewb.worker.$reapers, ewb.worker.$listeners, ewb.worker.$nodes, ewb.worker.tickers, ewb.worker.tickers[**], key G:$tickersLive, $chan(ewb.worker.eventLoopSignal), linkedlist.Node.next, linkedlist.Node.prev, ewb.worker.pool.List.len, ewb.worker.pool.List.$at, ewb.worker.pool.List.$pos, ewb.worker.pool.List.$in, ewb.worker.queues.Manager.items, ewb.worker.queues.Manager.items[**]
//@   ensures [once]      len(ewb.worker.queues.Manager.items) == old(len(ewb.worker.queues.Manager.items)) + 1 && ewb.worker.queues.Manager.items[old(len(ewb.worker.queues.Manager.items))] == pq
//@   ensures [kept]      forall i int :: 0 <= i && i < old(len(ewb.worker.queues.Manager.items)) ==> ewb.worker.queues.Manager.items[i] == old(ewb.worker.queues.Manager.items[i])
//@   ensures [initiated] old(ewb.worker.status) == initiated ==> ewb.worker.status == running && ewb.worker.$disp == 1
//@   ensures [otherwise] old(ewb.worker.status) != initiated ==> ewb.worker.status == old(ewb.worker.status) && ewb.worker.$disp == old(ewb.worker.$disp) && ewb.worker.$nodes == old(ewb.worker.$nodes)
//@   ensures [ri]        RI_worker(ewb.worker)

//@ func errWorkerBinder.BindPriorityQueue
//@   props C14 C15 C02 C18 C09
//@   requires ewb.worker != nil && RI_worker(ewb.worker) && len(ewb.worker.queues.Manager.items) < MaxInt - 2 && ewb.worker.Configs.idleWorkerExpiryDuration >= 0 && len(ewb.worker.tickers) < MaxInt
//@   modifies ewb.worker.status, $alloc, $spawned, ewb.worker.$disp, ewb.worker.$reapers, ewb.worker.$listeners, ewb.worker.$nodes, ewb.worker.tickers, ewb.worker.tickers[**], key G:$tickersLive, $chan(ewb.worker.eventLoopSignal), linkedlist.Node.next, linkedlist.Node.prev, ewb.worker.pool.List.len, ewb.worker.pool.List.$at, ewb.worker.pool.List.$pos, ewb.worker.pool.List.$in, ewb.worker.queues.Manager.items, ewb.worker.queues.Manager.items[**]
//@   ensures [once]      len(ewb.worker.queues.Manager.items) == old(len(ewb.worker.queues.Manager.items)) + 1
//@   ensures [kept]      forall i int :: 0 <= i && i < old(len(ewb.worker.queues.Manager.items)) ==> ewb.worker.queues.Manager.items[i] == old(ewb.worker.queues.Manager.items[i])
//@   ensures [initiated] old(ewb.worker.status) == initiated ==> ewb.worker.status == running && ewb.worker.$disp == 1
//@   ensures [otherwise] old(ewb.worker.status) != initiated ==> ewb.worker.status == old(ewb.worker.status) && ewb.worker.$disp == old(ewb.worker.$disp) && ewb.worker.$nodes == old(ewb.worker.$nodes)
//@   ensures [ri]        RI_worker(ewb.worker)

//@ func resultWorkerBinder.WithQueue
//@   props C14 C15 C02 C18 C09
//@   requires rwb.worker != nil && RI_worker(rwb.worker) && len(rwb.worker.queues.Manager.items) < MaxInt - 2 && rwb.worker.Configs.idleWorkerExpiryDuration >= 0 && len(rwb.worker.tickers) < MaxInt && q != nil
//@   modifies rwb.worker.status, $alloc, $spawned, rwb.worker.$disp, rwb.worker.$reapers, rwb.worker.$listeners, rwb.worker.$nodes, rwb.worker.tickers, rwb.worker.tickers[**], key G:$tickersLive, $chan(rwb.worker.eventLoopSignal), linkedlist.Node.next, linkedlist.Node.prev, rwb.worker.pool.List.len, rwb.worker.pool.List.$at, rwb.worker.pool.List.$pos, rwb.worker.pool.List.$in, rwb.worker.queues.Manager.items, rwb.worker.queues.Manager.items[**]
//@   ensures [once]      len(rwb.worker.queues.Manager.items) == old(len(rwb.worker.queues.Manager.items)) + 1 && rwb.worker.queues.Manager.items[old(len(rwb.worker.queues.Manager.items))] == q
//@   ensures [kept]      forall i int :: 0 <= i && i < old(len(rwb.worker.queues.Manager.items)) ==> rwb.worker.queues.Manager.items[i] == old(rwb.worker.queues.Manager.items[i])
//@   ensures [initiated] old(rwb.worker.status) == initiated ==> rwb.worker.status == running && rwb.worker.$disp == 1
//@   ensures [otherwise] old(rwb.worker.status) != initiated ==> rwb.worker.status == old(rwb.worker.status) && rwb.worker.$disp == old(rwb.worker.$disp) && rwb.worker.$nodes == old(rwb.worker.$nodes)
//@   ensures [ri]        RI_worker(rwb.worker)

//@ func resultWorkerBinder.BindQueue
//@   props C14 C15 C02 C18 C09
//@   requires rwb.worker != nil && RI_worker(rwb.worker) && len(rwb.worker.queues.Manager.items) < MaxInt - 2 && rwb.worker.Configs.idleWorkerExpiryDuration >= 0 && len(rwb.worker.tickers) < MaxInt
//@   modifies rwb.worker.status, $alloc, $spawned, rwb.worker.$disp, rwb.worker.$reapers, rwb.worker.$listeners, rwb.worker.$nodes, rwb.worker.tickers, rwb.worker.tickers[**], key G:$tickersLive, $chan(rwb.worker.eventLoopSignal), linkedlist.Node.next, linkedlist.Node.prev, rwb.worker.pool.List.len, rwb.worker.pool.List.$at, rwb.worker.pool.List.$pos, rwb.worker.pool.List.$in, rwb.worker.queues.Manager.items, rwb.worker.queues.Manager.items[**]
//@   ensures [once]      len(rwb.worker.queues.Manager.items) == old(len(rwb.worker.queues.Manager.items)) + 1
//@   ensures [kept]      forall i int :: 0 <= i && i < old(len(rwb.worker.queues.Manager.items)) ==> rwb.worker.queues.Manager.items[i] == old(rwb.worker.queues.Manager.items[i])
//@   ensures [initiated] old(rwb.worker.status) == initiated ==> rwb.worker.status == running && rwb.worker.$disp == 1
//@   ensures [otherwise] old(rwb.worker.status) != initiated ==> rwb.worker.status == old(rwb.worker.status) && rwb.worker.$disp == old(rwb.worker.$disp) && rwb.worker.$nodes == old(rwb.worker.$nodes)
//@   ensures [ri]        RI_worker(rwb.worker)

//@ func resultWorkerBinder.WithPriorityQueue
//@   props C14 C15 C02 C18 C09
//@   requires rwb.worker != nil && RI_worker(rwb.worker) && len(rwb.worker.queues.Manager.items) < MaxInt - 2 && rwb.worker.Configs.idleWorkerExpiryDuration >= 0 && len(rwb.worker.tickers) < MaxInt && pq != nil
//@   modifies rwb.worker.status, $alloc, $spawned, rwb.worker.$disp, rwb.worker.$reapers, rwb.worker.$listeners, rwb.worker.$nodes, rwb.worker.tickers, rwb.worker.tickers[**], key G:$tickersLive, $chan(rwb.worker.eventLoopSignal), linkedlist.Node.next, linkedlist.Node.prev, rwb.worker.pool.List.len, rwb.worker.pool.List.$at, rwb.worker.pool.List.$pos, rwb.worker.pool.List.$in, rwb.worker.queues.Manager.items, rwb.worker.queues.Manager.items[**]
//@   ensures [once]      len(rwb.worker.queues.Manager.items) == old(len(rwb.worker.queues.Manager.items)) + 1 && rwb.worker.queues.Manager.items[old(len(rwb.worker.queues.Manager.items))] == pq
//@   ensures [kept]      forall i int :: 0 <= i && i < old(len(rwb.worker.queues.Manager.items)) ==> rwb.worker.queues.Manager.items[i] == old(rwb.worker.queues.Manager.items[i])
//@   ensures [initiated] old(rwb.worker.status) == initiated ==> rwb.worker.status == running && rwb.worker.$disp == 1
//@   ensures [otherwise] old(rwb.worker.status) != initiated ==> rwb.worker.status == old(rwb.worker.status) && rwb.worker.$disp == old(rwb.worker.$disp) && rwb.worker.$nodes == old(rwb.worker.$nodes)
//@   ensures [ri]        RI_worker(rwb.worker)

//@ func resultWorkerBinder.BindPriorityQueue
//@   props C14 C15 C02 C18 C09
//@   requires rwb.worker != nil && RI_worker(rwb.worker) && len(rwb.worker.queues.Manager.items) < MaxInt - 2 && rwb.worker.Configs.idleWorkerExpiryDuration >= 0 && len(rwb.worker.tickers) < MaxInt
//@   modifies rwb.worker.status, $alloc, $spawned, rwb.worker.$disp, rwb.worker.$reapers, rwb.worker.$listeners, rwb.worker.$nodes, rwb.worker.tickers, rwb.worker.tickers[**], key G:$tickersLive, $chan(rwb.worker.eventLoopSignal), linkedlist.Node.next, linkedlist.Node.prev, rwb.worker.pool.List.len, rwb.worker.pool.List.$at, rwb.worker.pool.List.$pos, rwb.worker.pool.List.$in, rwb.worker.queues.Manager.items, rwb.worker.queues.Manager.items[**]
//@   ensures [once]      len(rwb.worker.queues.Manager.items) == old(len(rwb.worker.queues.Manager.items)) + 1
//@   ensures [kept]      forall i int :: 0 <= i && i < old(len(rwb.worker.queues.Manager.items)) ==> rwb.worker.queues.Manager.items[i] == old(rwb.worker.queues.Manager.items[i])
//@   ensures [initiated] old(rwb.worker.status) == initiated ==> rwb.worker.status == running && rwb.worker.$disp == 1
//@   ensures [otherwise] old(rwb.worker.status) != initiated ==> rwb.worker.status == old(rwb.worker.status) && rwb.worker.$disp == old(rwb.worker.$disp) && rwb.worker.$nodes == old(rwb.worker.$nodes)
//@   ensures [ri]        RI_worker(rwb.worker)

//@ func workerBinder.WithPersistentQueue
//@   assert [registered-before-start] before call varmq.worker.start: len(wb.worker.queues.Manager.items) == old(len(wb.worker.queues.Manager.items)) + 1
//@   props C14 C15 C02 C18 C11 C09
//@   requires wb.worker != nil && RI_worker(wb.worker) && len(wb.worker.queues.Manager.items) < MaxInt - 2 && wb.worker.Configs.idleWorkerExpiryDuration >= 0 && len(wb.worker.tickers) < MaxInt && pq != nil
//@   modifies wb.worker.status, $alloc, $spawned, wb.worker.$disp, wb.worker.$reapers, wb.worker.$listeners, wb.worker.$nodes, wb.worker.tickers, wb.worker.tickers[**], key G:$tickersLive, $chan(wb.worker.eventLoopSignal), linkedlist.Node.next, linkedlist.Node.prev, wb.worker.pool.List.len, wb.worker.pool.List.$at, wb.worker.pool.List.$pos, wb.worker.pool.List.$in, wb.worker.queues.Manager.items, wb.worker.queues.Manager.items[**]
//@   ensures [once]      len(wb.worker.queues.Manager.items) == old(len(wb.worker.queues.Manager.items)) + 1 && wb.worker.queues.Manager.items[old(len(wb.worker.queues.Manager.items))] == pq
//@   ensures [kept]      forall i int :: 0 <= i && i < old(len(wb.worker.queues.Manager.items)) ==> wb.worker.queues.Manager.items[i] == old(wb.worker.queues.Manager.items[i])
//@   ensures [initiated] old(wb.worker.status) == initiated ==> wb.worker.status == running && wb.worker.$disp == 1
//@   ensures [otherwise] old(wb.worker.status) != initiated ==> wb.worker.status == old(wb.worker.status) && wb.worker.$disp == old(wb.worker.$disp) && wb.worker.$nodes == old(wb.worker.$nodes)
//@   ensures [ri]        RI_worker(wb.worker)

//@ func workerBinder.WithPersistentPriorityQueue
//@   assert [registered-before-start] before call varmq.worker.start: len(wb.worker.queues.Manager.items) == old(len(wb.worker.queues.Manager.items)) + 1
//@   props C14 C15 C02 C18 C11 C09
//@   requires wb.worker != nil && RI_worker(wb.worker) && len(wb.worker.queues.Manager.items) < MaxInt - 2 && wb.worker.Configs.idleWorkerExpiryDuration >= 0 && len(wb.worker.tickers) < MaxInt && pq != nil && len(wb.worker.queues.Manager.items) < MaxInt - 1
//@   modifies wb.worker.status, $alloc, $spawned, wb.worker.$disp, wb.worker.$reapers, wb.worker.$listeners, wb.worker.$nodes, wb.worker.tickers, wb.worker.tickers[**], key G:$tickersLive, $chan(wb.worker.eventLoopSignal), linkedlist.Node.next, linkedlist.Node.prev, wb.worker.pool.List.len, wb.worker.pool.List.$at, wb.worker.pool.List.$pos, wb.worker.pool.List.$in, wb.worker.queues.Manager.items, wb.worker.queues.Manager.items[**]
//@   ensures [once]      len(wb.worker.queues.Manager.items) == old(len(wb.worker.queues.Manager.items)) + 1 && wb.worker.queues.Manager.items[old(len(wb.worker.queues.Manager.items))] == pq
//@   ensures [kept]      forall i int :: 0 <= i && i < old(len(wb.worker.queues.Manager.items)) ==> wb.worker.queues.Manager.items[i] == old(wb.worker.queues.Manager.items[i])
//@   ensures [initiated] old(wb.worker.status) == initiated ==> wb.worker.status == running && wb.worker.$disp == 1
//@   ensures [otherwise] old(wb.worker.status) != initiated ==> wb.worker.status == old(wb.worker.status) && wb.worker.$disp == old(wb.worker.$disp) && wb.worker.$nodes == old(wb.worker.$nodes)
//@   ensures [ri]        RI_worker(wb.worker)

//@ func workerBinder.WithDistributedQueue
//@   assert [registered-before-start] before call varmq.worker.start: len(wb.worker.queues.Manager.items) == old(len(wb.worker.queues.Manager.items)) + 1
//@   props C14 C15 C02 C18 C11 C09
//@   requires wb.worker != nil && RI_worker(wb.worker) && len(wb.worker.queues.Manager.items) < MaxInt - 2 && wb.worker.Configs.idleWorkerExpiryDuration >= 0 && len(wb.worker.tickers) < MaxInt && dq != nil
//@   modifies wb.worker.status, $alloc, $spawned, wb.worker.$disp, wb.worker.$reapers, wb.worker.$listeners, wb.worker.$nodes, wb.worker.tickers, wb.worker.tickers[**], key G:$tickersLive, $chan(wb.worker.eventLoopSignal), linkedlist.Node.next, linkedlist.Node.prev, wb.worker.pool.List.len, wb.worker.pool.List.$at, wb.worker.pool.List.$pos, wb.worker.pool.List.$in, wb.worker.queues.Manager.items, wb.worker.queues.Manager.items[**], $subs(dq)
//@   ensures [once]      len(wb.worker.queues.Manager.items) == old(len(wb.worker.queues.Manager.items)) + 1 && wb.worker.queues.Manager.items[old(len(wb.worker.queues.Manager.items))] == dq
//@   ensures [kept]      forall i int :: 0 <= i && i < old(len(wb.worker.queues.Manager.items)) ==> wb.worker.queues.Manager.items[i] == old(wb.worker.queues.Manager.items[i])
//@   ensures [initiated] old(wb.worker.status) == initiated ==> wb.worker.status == running && wb.worker.$disp == 1
//@   ensures [otherwise] old(wb.worker.status) != initiated ==> wb.worker.status == old(wb.worker.status) && wb.worker.$disp == old(wb.worker.$disp) && wb.worker.$nodes == old(wb.worker.$nodes)
//@   ensures [subscribed] $subs(dq) == old($subs(dq)) + 1
//@   ensures [ri]        RI_worker(wb.worker)

//@ func workerBinder.WithDistributedPriorityQueue
//@   assert [registered-before-start] before call varmq.worker.start: len(wb.worker.queues.Manager.items) == old(len(wb.worker.queues.Manager.items)) + 1
//@   props C14 C15 C02 C18 C11 C09
//@   requires wb.worker != nil && RI_worker(wb.worker) && len(wb.worker.queues.Manager.items) < MaxInt - 2 && wb.worker.Configs.idleWorkerExpiryDuration >= 0 && len(wb.worker.tickers) < MaxInt && dpq != nil
//@   modifies wb.worker.status, $alloc, $spawned, wb.worker.$disp, wb.worker.$reapers, wb.worker.$listeners, wb.worker.$nodes, wb.worker.tickers, wb.worker.tickers[**], key G:$tickersLive, $chan(wb.worker.eventLoopSignal), linkedlist.Node.next, linkedlist.Node.prev, wb.worker.pool.List.len, wb.worker.pool.List.$at, wb.worker.pool.List.$pos, wb.worker.pool.List.$in, wb.worker.queues.Manager.items, wb.worker.queues.Manager.items[**], $subs(dpq)
//@   ensures [once]      len(wb.worker.queues.Manager.items) == old(len(wb.worker.queues.Manager.items)) + 1 && wb.worker.queues.Manager.items[old(len(wb.worker.queues.Manager.items))] == dpq
//@   ensures [kept]      forall i int :: 0 <= i && i < old(len(wb.worker.queues.Manager.items)) ==> wb.worker.queues.Manager.items[i] == old(wb.worker.queues.Manager.items[i])
//@   ensures [initiated] old(wb.worker.status) == initiated ==> wb.worker.status == running && wb.worker.$disp == 1
//@   ensures [otherwise] old(wb.worker.status) != initiated ==> wb.worker.status == old(wb.worker.status) && wb.worker.$disp == old(wb.worker.$disp) && wb.worker.$nodes == old(wb.worker.$nodes)
//@   ensures [subscribed] $subs(dpq) == old($subs(dpq)) + 1
//@   ensures [ri]        RI_worker(wb.worker)

//@ func newQueues
//@   props C14
//@   modifies $alloc
//@   ensures result != nil && $typeof(result) == $tid(*workerBinder) && $as(*workerBinder, result).worker == worker
//@ func newErrQueues
//@   props C14
//@   modifies $alloc
//@   ensures result != nil && $typeof(result) == $tid(*errWorkerBinder) && $as(*errWorkerBinder, result).worker == worker
//@ func newResultQueues
//@   props C14
//@   modifies $alloc
//@   ensures result != nil && $typeof(result) == $tid(*resultWorkerBinder) && $as(*resultWorkerBinder, result).worker == worker
//@ func NewDistributedQueue
//@   props C12
//@   modifies $alloc
//@   ensures result != nil && $typeof(result) == $tid(*distributedQueue) && $as(*distributedQueue, result).IDistributedQueue == internalQueue
//@ func NewDistributedPriorityQueue
//@   props C12
//@   modifies $alloc
//@   ensures result != nil && $typeof(result) == $tid(*distributedPriorityQueue) && $as(*distributedPriorityQueue, result).IDistributedPriorityQueue == internalQueue

// ---------------------------------------------------------------- the idle-worker reaper (one run per tick)
// On every tick: if more than the minimum are idle, the idle nodes beyond the minimum that have expired are removed from the list, stopped
// and cached. A node is stopped only after it was seen linked into the list (evidence of idleness) -- never a node taken by the dispatcher.
//@ func worker.goRemoveIdleWorkers$1
//@   props C18 C01 C03 C18@B2 C01@B2
//@   b2_safety
// B2 (findings G6, G7, both fixed): the dispatcher works on the idle list concurrently with the reaper. A node may be stopped and cached only
// when THIS goroutine took it out of the list (Remove returned true); and the snapshot may be shorter than the length read before it.
//@   ghost after call linkedlist.List.Remove: $own := result
//@   assert [b2-own-stop] before call pool.Node.Stop: $own
//@   assert [b2-own-put]  before call sync.Pool.Put: $own
//@   requires $deref(ticker) != nil && $deref(w) != nil && PoolOK($deref(w)) && $deref(w).Configs.minIdleWorkerRatio <= 100 && $deref(w).concurrency * $deref(w).Configs.minIdleWorkerRatio <= MaxUint32
//@   requires forall n *linkedlist.Node[pool.Node[JobType]] {n.Value.lastUsed} :: n.Value.lastUsed == nil || $typeof(n.Value.lastUsed) == $tid(time.Time)
//@   modifies $alloc, linkedlist.Node.next, linkedlist.Node.prev, $deref(w).pool.List.len, $deref(w).pool.List.$at, $deref(w).pool.List.$pos, $deref(w).pool.List.$in,
//@            key CH:sent<, key CH:rcvd<, key CHV:<, key CH:open<, key G:$poolputs
//@   loop 1: invariant [outer] PoolOK($deref(w))
//@   loop 2: invariant [inner] PoolOK($deref(w)) && 0 <= rangeindex + 1 && rangeindex + 1 <= len($ranged)
//@   loop 2: invariant [nodes] (forall m int :: 0 <= m && m < len($ranged) ==> $ranged[m] != nil && $alloc($ranged[m])) && (forall a int, b int {$ranged[a], $ranged[b]} :: 0 <= a && a < b && b < len($ranged) ==> $ranged[a] != $ranged[b])
//@   loop 2: invariant [rest]  forall m int :: rangeindex + 1 <= m && m < len($ranged) ==> $deref(w).pool.List.$in[$ranged[m]] && $ranged[m] != $addr($deref(w).pool.List.root)
//@   ghost before call pool.Node.GetLastUsed: $evidence := false
//@   ghost after call linkedlist.Node.Next when result != nil: $evidence := true
//@   ghost after call linkedlist.Node.Prev when result != nil: $evidence := true
// a node is stopped only with proof that it was idle: either this goroutine removed it from the idle list itself (after finding G6 was
// repaired this is what the code relies on) or it was seen linked into the list
//@   assert [stop-only-idle] before call pool.Node.Stop: $evidence || $own
