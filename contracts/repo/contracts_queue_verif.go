//go:build verif

// Contracts for queue.go, priority.go, persistent*.go, distributed*.go of package varmq, checked by /verif (vq).
// Comment-only file: no executable code.
package varmq

//@ package varmq

//@ iface Worker.configs
//@   ensures result.jobIdGenerator != nil

// loadJobConfigs: the id generator is called once, then every option once, in order.
//@ func loadJobConfigs
//@   props C07
//@   requires qConfig.jobIdGenerator != nil && (forall k int :: 0 <= k && k < len(config) ==> config[k] != nil)
//@   modifies $usercalls, $alloc
//@   ensures [calls] $usercalls == old($usercalls) + 1 + len(config)
//@   loop 1: invariant 0 <= rangeindex + 1 && rangeindex + 1 <= len(config) && $usercalls == old($usercalls) + 1 + rangeindex + 1

// WithJobId("") leaves the id alone; otherwise it sets it.
//@ func WithJobId$1
//@   props C07
//@   requires c != nil
//@   modifies c.Id
//@   ensures [empty] id == "" ==> c.Id == old(c.Id)
//@   ensures [set]   id != "" ==> c.Id == id

// ---------------------------------------------------------------- binding a queue: registered exactly once
//@ pred QM(w *worker) := RI_Manager($addr(w.queues.Manager)) && len(w.queues.Manager.items) < MaxInt

//@ func newExternalQueue
//@   props C15
//@   modifies $alloc
//@   ensures $fresh(result) && result.q == q && result.w == worker

//@ func newQueue
//@   props C15 C17
//@   requires w != nil && QM(w)
//@   modifies $alloc, w.queues.Manager.items, w.queues.Manager.items[**]
//@   ensures [once]  len(w.queues.Manager.items) == old(len(w.queues.Manager.items)) + 1 && w.queues.Manager.items[old(len(w.queues.Manager.items))] == q
//@   ensures [kept]  forall i int :: 0 <= i && i < old(len(w.queues.Manager.items)) ==> w.queues.Manager.items[i] == old(w.queues.Manager.items[i])
//@   ensures [wired] $fresh(result) && result.internalQueue == q && result.externalBaseQueue != nil && result.externalBaseQueue.q == q && result.externalBaseQueue.w == $mk(w)

// ---------------------------------------------------------------- queue.Add / AddAll (plain worker, FIFO queue)
// Add: a rejected submission has no effect (the job is closed, nothing counted, no signal); an accepted one is enqueued exactly once,
// counted once, marked queued, and the dispatcher is signalled -- in that order.
//@ func queue.Add
//@   props C01 C03 C10 C17
//@   requires q.externalBaseQueue != nil && q.externalBaseQueue.w != nil && q.internalQueue != nil
//@   requires forall k int :: 0 <= k && k < len(configs) ==> configs[k] != nil
//@   modifies $usercalls, $alloc, $wgdone[0], $lenOf(q.internalQueue), $enq(q.internalQueue), $lastEnq(q.internalQueue), $submitted, $signals(q.externalBaseQueue.w), $acks, $lastAck
//@   ensures [rejected] !result1 ==> result0 == nil && $lenOf(q.internalQueue) == old($lenOf(q.internalQueue)) && $enq(q.internalQueue) == old($enq(q.internalQueue))
//@                        && $signals(q.externalBaseQueue.w) == old($signals(q.externalBaseQueue.w)) && j.status == closed && j.wg == 0
//@   ensures [accepted] result1 ==> result0 == $mk(j) && $enq(q.internalQueue) == old($enq(q.internalQueue)) + 1 && $lastEnq(q.internalQueue) == $mk(j)
//@                        && $lenOf(q.internalQueue) == old($lenOf(q.internalQueue)) + 1 && $signals(q.externalBaseQueue.w) == old($signals(q.externalBaseQueue.w)) + 1
//@                        && j.status == queued && j.wg == 1 && j.data == data
//@   ensures [counted]  forall m ref {$submitted(m)} :: $submitted(m) == old($submitted(m)) || (result1 && $submitted(m) == old($submitted(m)) + 1)
//@   ensures [fresh]    $fresh(j)

// AddAll: every item is either enqueued once (counted, signalled) or rejected and closed; the handle's counter is the number accepted.
//@ func queue.AddAll
//@   props C01 C05 C08 C17
//@   requires q.externalBaseQueue != nil && q.externalBaseQueue.w != nil && q.internalQueue != nil && len(items) <= MaxUint32
//@   modifies $usercalls, $alloc, $wgdone[0], $lenOf(q.internalQueue), $enq(q.internalQueue), $lastEnq(q.internalQueue), $submitted, $signals(q.externalBaseQueue.w), $acks, $lastAck
//@   ensures [pending]  groupJob.wgc.count == $enq(q.internalQueue) - old($enq(q.internalQueue)) && RI_Wgc(groupJob.wgc)
//@   ensures [signals]  $signals(q.externalBaseQueue.w) - old($signals(q.externalBaseQueue.w)) == $enq(q.internalQueue) - old($enq(q.internalQueue))
//@   ensures [len]      $lenOf(q.internalQueue) - old($lenOf(q.internalQueue)) == $enq(q.internalQueue) - old($enq(q.internalQueue))
//@   ensures [handle]   result == $mk(groupJob) && $fresh(groupJob)
//@   loop 1: invariant [range]  0 <= rangeindex + 1 && rangeindex + 1 <= len(items) && RI_Wgc(groupJob.wgc) && $fresh(groupJob) && $fresh(groupJob.wgc)
//@   loop 1: invariant [count]  ($enq(q.internalQueue) - old($enq(q.internalQueue))) + (len(items) - groupJob.wgc.count) == rangeindex + 1
//@                                && $enq(q.internalQueue) >= old($enq(q.internalQueue)) && groupJob.wgc.count <= len(items)
//@   loop 1: invariant [effect] $signals(q.externalBaseQueue.w) - old($signals(q.externalBaseQueue.w)) == $enq(q.internalQueue) - old($enq(q.internalQueue))
//@                                && $lenOf(q.internalQueue) - old($lenOf(q.internalQueue)) == $enq(q.internalQueue) - old($enq(q.internalQueue))
