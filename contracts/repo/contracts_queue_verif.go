//go:build verif

// Contracts for queue.go, priority.go, persistent*.go, distributed*.go of package varmq, checked by /verif (vq).
// Comment-only file: no executable code.
package varmq

//@ package varmq

//@ iface Worker.configs
//@   ensures result.jobIdGenerator != nil

// loadJobConfigs: the id generator is called once, then every option once, in order.
//@ func loadJobConfigs
//@   props C07
//@   requires qConfig.jobIdGenerator != nil && (forall k int :: 0 <= k && k < len(config) ==> config[k] != nil)
//@   modifies $usercalls, $alloc
//@   ensures [calls] $usercalls == old($usercalls) + 1 + len(config)
//@   loop 1: invariant 0 <= rangeindex + 1 && rangeindex + 1 <= len(config) && $usercalls == old($usercalls) + 1 + rangeindex + 1

// WithJobId("") leaves the id alone; otherwise it sets it.
//@ func WithJobId$1
//@   props C07
//@   requires c != nil
//@   modifies c.Id
//@   ensures [empty] $deref(id) == "" ==> c.Id == old(c.Id)
//@   ensures [set]   $deref(id) != "" ==> c.Id == $deref(id)

// ---------------------------------------------------------------- binding a queue: registered exactly once
//@ pred QM(w *worker) := RI_Manager($addr(w.queues.Manager)) && len(w.queues.Manager.items) < MaxInt

//@ func newExternalQueue
//@   props C15
//@   modifies $alloc
//@   ensures $fresh(result) && result.q == q && result.w == worker

//@ func newQueue
//@   props C15 C17
//@   requires w != nil && QM(w)
//@   modifies $alloc, w.queues.Manager.items, w.queues.Manager.items[**]
//@   ensures [once]  len(w.queues.Manager.items) == old(len(w.queues.Manager.items)) + 1 && w.queues.Manager.items[old(len(w.queues.Manager.items))] == q
//@   ensures [kept]  forall i int :: 0 <= i && i < old(len(w.queues.Manager.items)) ==> w.queues.Manager.items[i] == old(w.queues.Manager.items[i])
//@   ensures [wired] $fresh(result) && result.internalQueue == q && result.externalBaseQueue != nil && result.externalBaseQueue.q == q && result.externalBaseQueue.w == $mk(w)

// ---------------------------------------------------------------- queue.Add / AddAll (plain worker, FIFO queue)
// Add: a rejected submission has no effect (the job is closed, nothing counted, no signal); an accepted one is enqueued exactly once,
// counted once, marked queued, and the dispatcher is signalled -- in that order.
//@ func queue.Add
//@   props C01 C03 C10 C17 C16
//@   assert [signal-after-bookkeeping] before call invoke.notifyToPullNextJobs: j.status == queued
// the job is published by Enqueue: from then on the dispatcher may run and close it, so the submitter's last status store comes before
//@   assert [queued-before-publish] before call invoke.Enqueue: j.status == queued
//@   requires q.externalBaseQueue != nil && q.externalBaseQueue.w != nil && q.internalQueue != nil
//@   requires forall k int :: 0 <= k && k < len(configs) ==> configs[k] != nil
//@   modifies $usercalls, $alloc, $wgdone[0], $lenOf(q.internalQueue), $enq(q.internalQueue), $lastEnq(q.internalQueue), $submitted, $signals(q.externalBaseQueue.w), $acks, $lastAck
//@   ensures [rejected] !result1 ==> result0 == nil && $lenOf(q.internalQueue) == old($lenOf(q.internalQueue)) && $enq(q.internalQueue) == old($enq(q.internalQueue))
//@                        && $signals(q.externalBaseQueue.w) == old($signals(q.externalBaseQueue.w)) && j.status == closed && j.wg == 0
//@   ensures [accepted] result1 ==> result0 == $mk(j) && $enq(q.internalQueue) == old($enq(q.internalQueue)) + 1 && $lastEnq(q.internalQueue) == $mk(j)
//@                        && $lenOf(q.internalQueue) == old($lenOf(q.internalQueue)) + 1 && $signals(q.externalBaseQueue.w) == old($signals(q.externalBaseQueue.w)) + 1
//@                        && j.status == queued && j.wg == 1 && j.data == data
//@   ensures [counted]  forall m ref {$submitted(m)} :: $submitted(m) == old($submitted(m)) || (result1 && $submitted(m) == old($submitted(m)) + 1)
//@   ensures [fresh]    $fresh(j)

// AddAll: every item is either enqueued once (counted, signalled) or rejected and closed; the handle's counter is the number accepted.
//@ func queue.AddAll
//@   props C01 C05 C08 C17 C16 C07
//@   assert [signal-after-bookkeeping] before call invoke.notifyToPullNextJobs: j.job.status == queued
// the job is published by Enqueue: from then on the dispatcher may run and close it, so the submitter's last status store comes before
//@   assert [queued-before-publish] before call invoke.Enqueue: j.job.status == queued
//@   requires q.externalBaseQueue != nil && q.externalBaseQueue.w != nil && q.internalQueue != nil && len(items) <= MaxUint32
//@   modifies $usercalls, $alloc, $wgdone[0], $lenOf(q.internalQueue), $enq(q.internalQueue), $lastEnq(q.internalQueue), $submitted, $signals(q.externalBaseQueue.w), $acks, $lastAck
//@   ensures [pending]  groupJob.wgc.count == $enq(q.internalQueue) - old($enq(q.internalQueue)) && RI_Wgc(groupJob.wgc)
//@   ensures [signals]  $signals(q.externalBaseQueue.w) - old($signals(q.externalBaseQueue.w)) == $enq(q.internalQueue) - old($enq(q.internalQueue))
//@   ensures [len]      $lenOf(q.internalQueue) - old($lenOf(q.internalQueue)) == $enq(q.internalQueue) - old($enq(q.internalQueue))
//@   ensures [handle]   result == $mk(groupJob) && $fresh(groupJob)
// Submitted counts exactly the accepted items of the batch (a rejected item is never counted, not even transiently kept)
//@   ensures [submitted] $submitted($metricsOf(q.externalBaseQueue.w)) - old($submitted($metricsOf(q.externalBaseQueue.w))) == $enq(q.internalQueue) - old($enq(q.internalQueue))
// every item gets a job configuration of its own: one id-generator call and one WithJobId application per item (never a shared or reused one)
//@   ensures [own-config] $usercalls == old($usercalls) + 2 * len(items)
//@   loop 1: invariant [range]  0 <= rangeindex + 1 && rangeindex + 1 <= len(items) && RI_Wgc(groupJob.wgc) && $fresh(groupJob) && $fresh(groupJob.wgc)
//@   loop 1: invariant [own-config] $usercalls == old($usercalls) + 2 * (rangeindex + 1)
//@   loop 1: invariant [submitted] $submitted($metricsOf(q.externalBaseQueue.w)) - old($submitted($metricsOf(q.externalBaseQueue.w))) == $enq(q.internalQueue) - old($enq(q.internalQueue))
//@   loop 1: invariant [count]  ($enq(q.internalQueue) - old($enq(q.internalQueue))) + (len(items) - groupJob.wgc.count) == rangeindex + 1
//@                                && $enq(q.internalQueue) >= old($enq(q.internalQueue)) && groupJob.wgc.count <= len(items)
//@   loop 1: invariant [effect] $signals(q.externalBaseQueue.w) - old($signals(q.externalBaseQueue.w)) == $enq(q.internalQueue) - old($enq(q.internalQueue))
//@                                && $lenOf(q.internalQueue) - old($lenOf(q.internalQueue)) == $enq(q.internalQueue) - old($enq(q.internalQueue))

// ---------------------------------------------------------------- the other in-memory queue wrappers (same shape as queue.Add / queue.AddAll)

//@ func newErrorQueue
//@   props C15 C17
//@   requires w != nil && QM(w)
//@   modifies $alloc, w.queues.Manager.items, w.queues.Manager.items[**]
//@   ensures [once]  len(w.queues.Manager.items) == old(len(w.queues.Manager.items)) + 1 && w.queues.Manager.items[old(len(w.queues.Manager.items))] == q
//@   ensures [kept]  forall i int :: 0 <= i && i < old(len(w.queues.Manager.items)) ==> w.queues.Manager.items[i] == old(w.queues.Manager.items[i])
//@   ensures [wired] $fresh(result) && result.internalQueue == q && result.externalBaseQueue != nil && result.externalBaseQueue.q == q && result.externalBaseQueue.w == $mk(w)

//@ func errorQueue.Add
//@   props C01 C03 C10 C17 C16
//@   assert [signal-after-bookkeeping] before call invoke.notifyToPullNextJobs: j.job.status == queued
// the job is published by Enqueue: from then on the dispatcher may run and close it, so the submitter's last status store comes before
//@   assert [queued-before-publish] before call invoke.Enqueue: j.job.status == queued
//@   requires q.externalBaseQueue != nil && q.externalBaseQueue.w != nil && q.internalQueue != nil
//@   requires forall k int :: 0 <= k && k < len(configs) ==> configs[k] != nil
//@   modifies $usercalls, $alloc, $wgdone[0], $lenOf(q.internalQueue), $enq(q.internalQueue), $lastEnq(q.internalQueue), $submitted, $signals(q.externalBaseQueue.w), $acks, $lastAck
//@   ensures [rejected] !result1 ==> result0 == nil && $lenOf(q.internalQueue) == old($lenOf(q.internalQueue)) && $enq(q.internalQueue) == old($enq(q.internalQueue))
//@                        && $signals(q.externalBaseQueue.w) == old($signals(q.externalBaseQueue.w)) && j.job.status == closed && j.job.wg == 0 && !$open(j.Response.ch)
//@   ensures [accepted] result1 ==> result0 == $mk(j) && $enq(q.internalQueue) == old($enq(q.internalQueue)) + 1 && $lastEnq(q.internalQueue) == $mk(j)
//@                        && $lenOf(q.internalQueue) == old($lenOf(q.internalQueue)) + 1 && $signals(q.externalBaseQueue.w) == old($signals(q.externalBaseQueue.w)) + 1
//@                        && j.job.status == queued && j.job.wg == 1 && j.job.data == data
//@   ensures [counted]  forall m ref {$submitted(m)} :: $submitted(m) == old($submitted(m)) || (result1 && $submitted(m) == old($submitted(m)) + 1)
//@   ensures [fresh]    $fresh(j)

//@ func errorQueue.AddAll
//@   props C01 C05 C08 C17 C16 C07
//@   assert [signal-after-bookkeeping] before call invoke.notifyToPullNextJobs: j.errorJob.job.status == queued
// the job is published by Enqueue: from then on the dispatcher may run and close it, so the submitter's last status store comes before
//@   assert [queued-before-publish] before call invoke.Enqueue: j.errorJob.job.status == queued
//@   requires q.externalBaseQueue != nil && q.externalBaseQueue.w != nil && q.internalQueue != nil && len(items) <= MaxUint32
//@   modifies $usercalls, $alloc, $wgdone[0], $lenOf(q.internalQueue), $enq(q.internalQueue), $lastEnq(q.internalQueue), $submitted, $signals(q.externalBaseQueue.w), $acks, $lastAck
//@   ensures [pending]  groupJob.wgc.count == $enq(q.internalQueue) - old($enq(q.internalQueue)) && RI_Wgc(groupJob.wgc)
//@   ensures [signals]  $signals(q.externalBaseQueue.w) - old($signals(q.externalBaseQueue.w)) == $enq(q.internalQueue) - old($enq(q.internalQueue))
//@   ensures [len]      $lenOf(q.internalQueue) - old($lenOf(q.internalQueue)) == $enq(q.internalQueue) - old($enq(q.internalQueue))
//@   ensures [handle]   result == $mk(groupJob) && $fresh(groupJob)
// Submitted counts exactly the accepted items of the batch (a rejected item is never counted, not even transiently kept)
//@   ensures [submitted] $submitted($metricsOf(q.externalBaseQueue.w)) - old($submitted($metricsOf(q.externalBaseQueue.w))) == $enq(q.internalQueue) - old($enq(q.internalQueue))
// every item gets a job configuration of its own: one id-generator call and one WithJobId application per item (never a shared or reused one)
//@   ensures [own-config] $usercalls == old($usercalls) + 2 * len(items)
//@   ensures [stream]   len(items) > 0 ==> (groupJob.wgc.count >= 1 <==> $open(groupJob.errorJob.Response.ch))
//@   loop 1: invariant [range]  0 <= rangeindex + 1 && rangeindex + 1 <= len(items) && RI_Wgc(groupJob.wgc) && $fresh(groupJob) && $fresh(groupJob.wgc)
//@   loop 1: invariant [own-config] $usercalls == old($usercalls) + 2 * (rangeindex + 1)
//@   loop 1: invariant [submitted] $submitted($metricsOf(q.externalBaseQueue.w)) - old($submitted($metricsOf(q.externalBaseQueue.w))) == $enq(q.internalQueue) - old($enq(q.internalQueue))
//@   loop 1: invariant [count]  ($enq(q.internalQueue) - old($enq(q.internalQueue))) + (len(items) - groupJob.wgc.count) == rangeindex + 1
//@                                && $enq(q.internalQueue) >= old($enq(q.internalQueue)) && groupJob.wgc.count <= len(items)
//@   loop 1: invariant [effect] $signals(q.externalBaseQueue.w) - old($signals(q.externalBaseQueue.w)) == $enq(q.internalQueue) - old($enq(q.internalQueue))
//@                                && $lenOf(q.internalQueue) - old($lenOf(q.internalQueue)) == $enq(q.internalQueue) - old($enq(q.internalQueue))
//@   loop 1: invariant [stream] $fresh(groupJob.errorJob.Response.ch) && StreamOK(groupJob.errorJob.Response, groupJob.wgc) && (len(items) > 0 ==> (groupJob.wgc.count >= 1 <==> $open(groupJob.errorJob.Response.ch)))

//@ func newResultQueue
//@   props C15 C17
//@   requires w != nil && QM(w)
//@   modifies $alloc, w.queues.Manager.items, w.queues.Manager.items[**]
//@   ensures [once]  len(w.queues.Manager.items) == old(len(w.queues.Manager.items)) + 1 && w.queues.Manager.items[old(len(w.queues.Manager.items))] == q
//@   ensures [kept]  forall i int :: 0 <= i && i < old(len(w.queues.Manager.items)) ==> w.queues.Manager.items[i] == old(w.queues.Manager.items[i])
//@   ensures [wired] $fresh(result) && result.internalQueue == q && result.externalBaseQueue != nil && result.externalBaseQueue.q == q && result.externalBaseQueue.w == $mk(w)

//@ func resultQueue.Add
//@   props C01 C03 C10 C17 C16
//@   assert [signal-after-bookkeeping] before call invoke.notifyToPullNextJobs: j.job.status == queued
// the job is published by Enqueue: from then on the dispatcher may run and close it, so the submitter's last status store comes before
//@   assert [queued-before-publish] before call invoke.Enqueue: j.job.status == queued
//@   requires q.externalBaseQueue != nil && q.externalBaseQueue.w != nil && q.internalQueue != nil
//@   requires forall k int :: 0 <= k && k < len(configs) ==> configs[k] != nil
//@   modifies $usercalls, $alloc, $wgdone[0], $lenOf(q.internalQueue), $enq(q.internalQueue), $lastEnq(q.internalQueue), $submitted, $signals(q.externalBaseQueue.w), $acks, $lastAck
//@   ensures [rejected] !result1 ==> result0 == nil && $lenOf(q.internalQueue) == old($lenOf(q.internalQueue)) && $enq(q.internalQueue) == old($enq(q.internalQueue))
//@                        && $signals(q.externalBaseQueue.w) == old($signals(q.externalBaseQueue.w)) && j.job.status == closed && j.job.wg == 0 && !$open(j.Response.ch)
//@   ensures [accepted] result1 ==> result0 == $mk(j) && $enq(q.internalQueue) == old($enq(q.internalQueue)) + 1 && $lastEnq(q.internalQueue) == $mk(j)
//@                        && $lenOf(q.internalQueue) == old($lenOf(q.internalQueue)) + 1 && $signals(q.externalBaseQueue.w) == old($signals(q.externalBaseQueue.w)) + 1
//@                        && j.job.status == queued && j.job.wg == 1 && j.job.data == data
//@   ensures [counted]  forall m ref {$submitted(m)} :: $submitted(m) == old($submitted(m)) || (result1 && $submitted(m) == old($submitted(m)) + 1)
//@   ensures [fresh]    $fresh(j)

//@ func resultQueue.AddAll
//@   props C01 C05 C08 C17 C16 C07
//@   assert [signal-after-bookkeeping] before call invoke.notifyToPullNextJobs: j.resultJob.job.status == queued
// the job is published by Enqueue: from then on the dispatcher may run and close it, so the submitter's last status store comes before
//@   assert [queued-before-publish] before call invoke.Enqueue: j.resultJob.job.status == queued
//@   requires q.externalBaseQueue != nil && q.externalBaseQueue.w != nil && q.internalQueue != nil && len(items) <= MaxUint32
//@   modifies $usercalls, $alloc, $wgdone[0], $lenOf(q.internalQueue), $enq(q.internalQueue), $lastEnq(q.internalQueue), $submitted, $signals(q.externalBaseQueue.w), $acks, $lastAck
//@   ensures [pending]  groupJob.wgc.count == $enq(q.internalQueue) - old($enq(q.internalQueue)) && RI_Wgc(groupJob.wgc)
//@   ensures [signals]  $signals(q.externalBaseQueue.w) - old($signals(q.externalBaseQueue.w)) == $enq(q.internalQueue) - old($enq(q.internalQueue))
//@   ensures [len]      $lenOf(q.internalQueue) - old($lenOf(q.internalQueue)) == $enq(q.internalQueue) - old($enq(q.internalQueue))
//@   ensures [handle]   result == $mk(groupJob) && $fresh(groupJob)
// Submitted counts exactly the accepted items of the batch (a rejected item is never counted, not even transiently kept)
//@   ensures [submitted] $submitted($metricsOf(q.externalBaseQueue.w)) - old($submitted($metricsOf(q.externalBaseQueue.w))) == $enq(q.internalQueue) - old($enq(q.internalQueue))
// every item gets a job configuration of its own: one id-generator call and one WithJobId application per item (never a shared or reused one)
//@   ensures [own-config] $usercalls == old($usercalls) + 2 * len(items)
//@   ensures [stream]   len(items) > 0 ==> (groupJob.wgc.count >= 1 <==> $open(groupJob.resultJob.Response.ch))
//@   loop 1: invariant [range]  0 <= rangeindex + 1 && rangeindex + 1 <= len(items) && RI_Wgc(groupJob.wgc) && $fresh(groupJob) && $fresh(groupJob.wgc)
//@   loop 1: invariant [own-config] $usercalls == old($usercalls) + 2 * (rangeindex + 1)
//@   loop 1: invariant [submitted] $submitted($metricsOf(q.externalBaseQueue.w)) - old($submitted($metricsOf(q.externalBaseQueue.w))) == $enq(q.internalQueue) - old($enq(q.internalQueue))
//@   loop 1: invariant [count]  ($enq(q.internalQueue) - old($enq(q.internalQueue))) + (len(items) - groupJob.wgc.count) == rangeindex + 1
//@                                && $enq(q.internalQueue) >= old($enq(q.internalQueue)) && groupJob.wgc.count <= len(items)
//@   loop 1: invariant [effect] $signals(q.externalBaseQueue.w) - old($signals(q.externalBaseQueue.w)) == $enq(q.internalQueue) - old($enq(q.internalQueue))
//@                                && $lenOf(q.internalQueue) - old($lenOf(q.internalQueue)) == $enq(q.internalQueue) - old($enq(q.internalQueue))
//@   loop 1: invariant [stream] $fresh(groupJob.resultJob.Response.ch) && StreamOK(groupJob.resultJob.Response, groupJob.wgc) && (len(items) > 0 ==> (groupJob.wgc.count >= 1 <==> $open(groupJob.resultJob.Response.ch)))

//@ func newPriorityQueue
//@   props C15 C17
//@   requires w != nil && QM(w)
//@   modifies $alloc, w.queues.Manager.items, w.queues.Manager.items[**]
//@   ensures [once]  len(w.queues.Manager.items) == old(len(w.queues.Manager.items)) + 1 && w.queues.Manager.items[old(len(w.queues.Manager.items))] == pq
//@   ensures [kept]  forall i int :: 0 <= i && i < old(len(w.queues.Manager.items)) ==> w.queues.Manager.items[i] == old(w.queues.Manager.items[i])
//@   ensures [wired] $fresh(result) && result.internalQueue == pq && result.externalBaseQueue != nil && result.externalBaseQueue.q == pq && result.externalBaseQueue.w == $mk(w)

//@ func priorityQueue.Add
//@   props C01 C03 C10 C17 C16
//@   assert [signal-after-bookkeeping] before call invoke.notifyToPullNextJobs: j.status == queued
// the job is published by Enqueue: from then on the dispatcher may run and close it, so the submitter's last status store comes before
//@   assert [queued-before-publish] before call invoke.Enqueue: j.status == queued
//@   requires q.externalBaseQueue != nil && q.externalBaseQueue.w != nil && q.internalQueue != nil
//@   requires forall k int :: 0 <= k && k < len(configs) ==> configs[k] != nil
//@   modifies $usercalls, $alloc, $wgdone[0], $lenOf(q.internalQueue), $enq(q.internalQueue), $lastEnq(q.internalQueue), $lastEnqPrio(q.internalQueue), $submitted, $signals(q.externalBaseQueue.w), $acks, $lastAck
//@   ensures [rejected] !result1 ==> result0 == nil && $lenOf(q.internalQueue) == old($lenOf(q.internalQueue)) && $enq(q.internalQueue) == old($enq(q.internalQueue))
//@                        && $signals(q.externalBaseQueue.w) == old($signals(q.externalBaseQueue.w)) && j.status == closed && j.wg == 0
//@   ensures [accepted] result1 ==> result0 == $mk(j) && $enq(q.internalQueue) == old($enq(q.internalQueue)) + 1 && $lastEnq(q.internalQueue) == $mk(j) && $lastEnqPrio(q.internalQueue) == priority
//@                        && $lenOf(q.internalQueue) == old($lenOf(q.internalQueue)) + 1 && $signals(q.externalBaseQueue.w) == old($signals(q.externalBaseQueue.w)) + 1
//@                        && j.status == queued && j.wg == 1 && j.data == data
//@   ensures [counted]  forall m ref {$submitted(m)} :: $submitted(m) == old($submitted(m)) || (result1 && $submitted(m) == old($submitted(m)) + 1)
//@   ensures [fresh]    $fresh(j)

//@ func priorityQueue.AddAll
//@   props C01 C05 C08 C17 C16 C07
//@   assert [signal-after-bookkeeping] before call invoke.notifyToPullNextJobs: j.job.status == queued
// the job is published by Enqueue: from then on the dispatcher may run and close it, so the submitter's last status store comes before
//@   assert [queued-before-publish] before call invoke.Enqueue: j.job.status == queued
//@   requires q.externalBaseQueue != nil && q.externalBaseQueue.w != nil && q.internalQueue != nil && len(items) <= MaxUint32
//@   modifies $usercalls, $alloc, $wgdone[0], $lenOf(q.internalQueue), $enq(q.internalQueue), $lastEnq(q.internalQueue), $lastEnqPrio(q.internalQueue), $submitted, $signals(q.externalBaseQueue.w), $acks, $lastAck
//@   ensures [pending]  groupJob.wgc.count == $enq(q.internalQueue) - old($enq(q.internalQueue)) && RI_Wgc(groupJob.wgc)
//@   ensures [signals]  $signals(q.externalBaseQueue.w) - old($signals(q.externalBaseQueue.w)) == $enq(q.internalQueue) - old($enq(q.internalQueue))
//@   ensures [len]      $lenOf(q.internalQueue) - old($lenOf(q.internalQueue)) == $enq(q.internalQueue) - old($enq(q.internalQueue))
//@   ensures [handle]   result == $mk(groupJob) && $fresh(groupJob)
// Submitted counts exactly the accepted items of the batch (a rejected item is never counted, not even transiently kept)
//@   ensures [submitted] $submitted($metricsOf(q.externalBaseQueue.w)) - old($submitted($metricsOf(q.externalBaseQueue.w))) == $enq(q.internalQueue) - old($enq(q.internalQueue))
// every item gets a job configuration of its own: one id-generator call and one WithJobId application per item (never a shared or reused one)
//@   ensures [own-config] $usercalls == old($usercalls) + 2 * len(items)
//@   loop 1: invariant [range]  0 <= rangeindex + 1 && rangeindex + 1 <= len(items) && RI_Wgc(groupJob.wgc) && $fresh(groupJob) && $fresh(groupJob.wgc)
//@   loop 1: invariant [own-config] $usercalls == old($usercalls) + 2 * (rangeindex + 1)
//@   loop 1: invariant [submitted] $submitted($metricsOf(q.externalBaseQueue.w)) - old($submitted($metricsOf(q.externalBaseQueue.w))) == $enq(q.internalQueue) - old($enq(q.internalQueue))
//@   loop 1: invariant [count]  ($enq(q.internalQueue) - old($enq(q.internalQueue))) + (len(items) - groupJob.wgc.count) == rangeindex + 1
//@                                && $enq(q.internalQueue) >= old($enq(q.internalQueue)) && groupJob.wgc.count <= len(items)
//@   loop 1: invariant [effect] $signals(q.externalBaseQueue.w) - old($signals(q.externalBaseQueue.w)) == $enq(q.internalQueue) - old($enq(q.internalQueue))
//@                                && $lenOf(q.internalQueue) - old($lenOf(q.internalQueue)) == $enq(q.internalQueue) - old($enq(q.internalQueue))

//@ func newErrorPriorityQueue
//@   props C15 C17
//@   requires w != nil && QM(w)
//@   modifies $alloc, w.queues.Manager.items, w.queues.Manager.items[**]
//@   ensures [once]  len(w.queues.Manager.items) == old(len(w.queues.Manager.items)) + 1 && w.queues.Manager.items[old(len(w.queues.Manager.items))] == pq
//@   ensures [kept]  forall i int :: 0 <= i && i < old(len(w.queues.Manager.items)) ==> w.queues.Manager.items[i] == old(w.queues.Manager.items[i])
//@   ensures [wired] $fresh(result) && result.internalQueue == pq && result.externalBaseQueue != nil && result.externalBaseQueue.q == pq && result.externalBaseQueue.w == $mk(w)

//@ func errorPriorityQueue.Add
//@   props C01 C03 C10 C17 C16
//@   assert [signal-after-bookkeeping] before call invoke.notifyToPullNextJobs: j.job.status == queued
// the job is published by Enqueue: from then on the dispatcher may run and close it, so the submitter's last status store comes before
//@   assert [queued-before-publish] before call invoke.Enqueue: j.job.status == queued
//@   requires q.externalBaseQueue != nil && q.externalBaseQueue.w != nil && q.internalQueue != nil
//@   requires forall k int :: 0 <= k && k < len(configs) ==> configs[k] != nil
//@   modifies $usercalls, $alloc, $wgdone[0], $lenOf(q.internalQueue), $enq(q.internalQueue), $lastEnq(q.internalQueue), $lastEnqPrio(q.internalQueue), $submitted, $signals(q.externalBaseQueue.w), $acks, $lastAck
//@   ensures [rejected] !result1 ==> result0 == nil && $lenOf(q.internalQueue) == old($lenOf(q.internalQueue)) && $enq(q.internalQueue) == old($enq(q.internalQueue))
//@                        && $signals(q.externalBaseQueue.w) == old($signals(q.externalBaseQueue.w)) && j.job.status == closed && j.job.wg == 0 && !$open(j.Response.ch)
//@   ensures [accepted] result1 ==> result0 == $mk(j) && $enq(q.internalQueue) == old($enq(q.internalQueue)) + 1 && $lastEnq(q.internalQueue) == $mk(j) && $lastEnqPrio(q.internalQueue) == priority
//@                        && $lenOf(q.internalQueue) == old($lenOf(q.internalQueue)) + 1 && $signals(q.externalBaseQueue.w) == old($signals(q.externalBaseQueue.w)) + 1
//@                        && j.job.status == queued && j.job.wg == 1 && j.job.data == data
//@   ensures [counted]  forall m ref {$submitted(m)} :: $submitted(m) == old($submitted(m)) || (result1 && $submitted(m) == old($submitted(m)) + 1)
//@   ensures [fresh]    $fresh(j)

//@ func errorPriorityQueue.AddAll
//@   props C01 C05 C08 C17 C16 C07
//@   assert [signal-after-bookkeeping] before call invoke.notifyToPullNextJobs: j.errorJob.job.status == queued
// the job is published by Enqueue: from then on the dispatcher may run and close it, so the submitter's last status store comes before
//@   assert [queued-before-publish] before call invoke.Enqueue: j.errorJob.job.status == queued
//@   requires q.externalBaseQueue != nil && q.externalBaseQueue.w != nil && q.internalQueue != nil && len(items) <= MaxUint32
//@   modifies $usercalls, $alloc, $wgdone[0], $lenOf(q.internalQueue), $enq(q.internalQueue), $lastEnq(q.internalQueue), $lastEnqPrio(q.internalQueue), $submitted, $signals(q.externalBaseQueue.w), $acks, $lastAck
//@   ensures [pending]  groupJob.wgc.count == $enq(q.internalQueue) - old($enq(q.internalQueue)) && RI_Wgc(groupJob.wgc)
//@   ensures [signals]  $signals(q.externalBaseQueue.w) - old($signals(q.externalBaseQueue.w)) == $enq(q.internalQueue) - old($enq(q.internalQueue))
//@   ensures [len]      $lenOf(q.internalQueue) - old($lenOf(q.internalQueue)) == $enq(q.internalQueue) - old($enq(q.internalQueue))
//@   ensures [handle]   result == $mk(groupJob) && $fresh(groupJob)
// Submitted counts exactly the accepted items of the batch (a rejected item is never counted, not even transiently kept)
//@   ensures [submitted] $submitted($metricsOf(q.externalBaseQueue.w)) - old($submitted($metricsOf(q.externalBaseQueue.w))) == $enq(q.internalQueue) - old($enq(q.internalQueue))
// every item gets a job configuration of its own: one id-generator call and one WithJobId application per item (never a shared or reused one)
//@   ensures [own-config] $usercalls == old($usercalls) + 2 * len(items)
//@   ensures [stream]   len(items) > 0 ==> (groupJob.wgc.count >= 1 <==> $open(groupJob.errorJob.Response.ch))
//@   loop 1: invariant [range]  0 <= rangeindex + 1 && rangeindex + 1 <= len(items) && RI_Wgc(groupJob.wgc) && $fresh(groupJob) && $fresh(groupJob.wgc)
//@   loop 1: invariant [own-config] $usercalls == old($usercalls) + 2 * (rangeindex + 1)
//@   loop 1: invariant [submitted] $submitted($metricsOf(q.externalBaseQueue.w)) - old($submitted($metricsOf(q.externalBaseQueue.w))) == $enq(q.internalQueue) - old($enq(q.internalQueue))
//@   loop 1: invariant [count]  ($enq(q.internalQueue) - old($enq(q.internalQueue))) + (len(items) - groupJob.wgc.count) == rangeindex + 1
//@                                && $enq(q.internalQueue) >= old($enq(q.internalQueue)) && groupJob.wgc.count <= len(items)
//@   loop 1: invariant [effect] $signals(q.externalBaseQueue.w) - old($signals(q.externalBaseQueue.w)) == $enq(q.internalQueue) - old($enq(q.internalQueue))
//@                                && $lenOf(q.internalQueue) - old($lenOf(q.internalQueue)) == $enq(q.internalQueue) - old($enq(q.internalQueue))
//@   loop 1: invariant [stream] $fresh(groupJob.errorJob.Response.ch) && StreamOK(groupJob.errorJob.Response, groupJob.wgc) && (len(items) > 0 ==> (groupJob.wgc.count >= 1 <==> $open(groupJob.errorJob.Response.ch)))

//@ func newResultPriorityQueue
//@   props C15 C17
//@   requires w != nil && QM(w)
//@   modifies $alloc, w.queues.Manager.items, w.queues.Manager.items[**]
//@   ensures [once]  len(w.queues.Manager.items) == old(len(w.queues.Manager.items)) + 1 && w.queues.Manager.items[old(len(w.queues.Manager.items))] == pq
//@   ensures [kept]  forall i int :: 0 <= i && i < old(len(w.queues.Manager.items)) ==> w.queues.Manager.items[i] == old(w.queues.Manager.items[i])
//@   ensures [wired] $fresh(result) && result.internalQueue == pq && result.externalBaseQueue != nil && result.externalBaseQueue.q == pq && result.externalBaseQueue.w == $mk(w)

//@ func resultPriorityQueue.Add
//@   props C01 C03 C10 C17 C16
//@   assert [signal-after-bookkeeping] before call invoke.notifyToPullNextJobs: j.job.status == queued
// the job is published by Enqueue: from then on the dispatcher may run and close it, so the submitter's last status store comes before
//@   assert [queued-before-publish] before call invoke.Enqueue: j.job.status == queued
//@   requires q.externalBaseQueue != nil && q.externalBaseQueue.w != nil && q.internalQueue != nil
//@   requires forall k int :: 0 <= k && k < len(configs) ==> configs[k] != nil
//@   modifies $usercalls, $alloc, $wgdone[0], $lenOf(q.internalQueue), $enq(q.internalQueue), $lastEnq(q.internalQueue), $lastEnqPrio(q.internalQueue), $submitted, $signals(q.externalBaseQueue.w), $acks, $lastAck
//@   ensures [rejected] !result1 ==> result0 == nil && $lenOf(q.internalQueue) == old($lenOf(q.internalQueue)) && $enq(q.internalQueue) == old($enq(q.internalQueue))
//@                        && $signals(q.externalBaseQueue.w) == old($signals(q.externalBaseQueue.w)) && j.job.status == closed && j.job.wg == 0 && !$open(j.Response.ch)
//@   ensures [accepted] result1 ==> result0 == $mk(j) && $enq(q.internalQueue) == old($enq(q.internalQueue)) + 1 && $lastEnq(q.internalQueue) == $mk(j) && $lastEnqPrio(q.internalQueue) == priority
//@                        && $lenOf(q.internalQueue) == old($lenOf(q.internalQueue)) + 1 && $signals(q.externalBaseQueue.w) == old($signals(q.externalBaseQueue.w)) + 1
//@                        && j.job.status == queued && j.job.wg == 1 && j.job.data == data
//@   ensures [counted]  forall m ref {$submitted(m)} :: $submitted(m) == old($submitted(m)) || (result1 && $submitted(m) == old($submitted(m)) + 1)
//@   ensures [fresh]    $fresh(j)

//@ func resultPriorityQueue.AddAll
//@   props C01 C05 C08 C17 C16 C07
//@   assert [signal-after-bookkeeping] before call invoke.notifyToPullNextJobs: j.resultJob.job.status == queued
// the job is published by Enqueue: from then on the dispatcher may run and close it, so the submitter's last status store comes before
//@   assert [queued-before-publish] before call invoke.Enqueue: j.resultJob.job.status == queued
//@   requires q.externalBaseQueue != nil && q.externalBaseQueue.w != nil && q.internalQueue != nil && len(items) <= MaxUint32
//@   modifies $usercalls, $alloc, $wgdone[0], $lenOf(q.internalQueue), $enq(q.internalQueue), $lastEnq(q.internalQueue), $lastEnqPrio(q.internalQueue), $submitted, $signals(q.externalBaseQueue.w), $acks, $lastAck
//@   ensures [pending]  groupJob.wgc.count == $enq(q.internalQueue) - old($enq(q.internalQueue)) && RI_Wgc(groupJob.wgc)
//@   ensures [signals]  $signals(q.externalBaseQueue.w) - old($signals(q.externalBaseQueue.w)) == $enq(q.internalQueue) - old($enq(q.internalQueue))
//@   ensures [len]      $lenOf(q.internalQueue) - old($lenOf(q.internalQueue)) == $enq(q.internalQueue) - old($enq(q.internalQueue))
//@   ensures [handle]   result == $mk(groupJob) && $fresh(groupJob)
// Submitted counts exactly the accepted items of the batch (a rejected item is never counted, not even transiently kept)
//@   ensures [submitted] $submitted($metricsOf(q.externalBaseQueue.w)) - old($submitted($metricsOf(q.externalBaseQueue.w))) == $enq(q.internalQueue) - old($enq(q.internalQueue))
// every item gets a job configuration of its own: one id-generator call and one WithJobId application per item (never a shared or reused one)
//@   ensures [own-config] $usercalls == old($usercalls) + 2 * len(items)
//@   ensures [stream]   len(items) > 0 ==> (groupJob.wgc.count >= 1 <==> $open(groupJob.resultJob.Response.ch))
//@   loop 1: invariant [range]  0 <= rangeindex + 1 && rangeindex + 1 <= len(items) && RI_Wgc(groupJob.wgc) && $fresh(groupJob) && $fresh(groupJob.wgc)
//@   loop 1: invariant [own-config] $usercalls == old($usercalls) + 2 * (rangeindex + 1)
//@   loop 1: invariant [submitted] $submitted($metricsOf(q.externalBaseQueue.w)) - old($submitted($metricsOf(q.externalBaseQueue.w))) == $enq(q.internalQueue) - old($enq(q.internalQueue))
//@   loop 1: invariant [count]  ($enq(q.internalQueue) - old($enq(q.internalQueue))) + (len(items) - groupJob.wgc.count) == rangeindex + 1
//@                                && $enq(q.internalQueue) >= old($enq(q.internalQueue)) && groupJob.wgc.count <= len(items)
//@   loop 1: invariant [effect] $signals(q.externalBaseQueue.w) - old($signals(q.externalBaseQueue.w)) == $enq(q.internalQueue) - old($enq(q.internalQueue))
//@                                && $lenOf(q.internalQueue) - old($lenOf(q.internalQueue)) == $enq(q.internalQueue) - old($enq(q.internalQueue))
//@   loop 1: invariant [stream] $fresh(groupJob.resultJob.Response.ch) && StreamOK(groupJob.resultJob.Response, groupJob.wgc) && (len(items) > 0 ==> (groupJob.wgc.count >= 1 <==> $open(groupJob.resultJob.Response.ch)))

// ---------------------------------------------------------------- externalBaseQueue
//@ func externalBaseQueue.NumPending
//@   props C17
//@   requires eq.q != nil
//@   ensures result == $lenOf(eq.q)

//@ func externalBaseQueue.Worker
//@   props C14
//@   ensures result == eq.w

//@ func externalBaseQueue.Close
//@   props C10
//@   requires eq.q != nil
//@   modifies $qclosed(eq.q)
//@   ensures $qclosed(eq.q)

// Purge empties the queue and cancels (closes) every job that was in it: each value implementing io.Closer is closed, none is skipped.
//@ func externalBaseQueue.Purge
//@   props C10 C08 C05
//@   requires eq.q != nil
//@   modifies $lenOf(eq.q), $purges(eq.q), $jstatus, $jclosecalls, $acks, $lastAck
//@   ensures [emptied] $lenOf(eq.q) == 0 && $purges(eq.q) == old($purges(eq.q)) + 1
//@   ensures [closed]  forall k int {prevValues[k]} :: 0 <= k && k < len(prevValues) && $impl(io.Closer, prevValues[k]) ==> $jclosecalls(prevValues[k]) > old($jclosecalls(prevValues[k]))
//@   ensures [count]   len(prevValues) == old($lenOf(eq.q))
//@   loop 1: invariant [range]  0 <= rangeindex + 1 && rangeindex + 1 <= len(prevValues) && $lenOf(eq.q) == 0 && $purges(eq.q) == old($purges(eq.q)) + 1
//@   loop 1: invariant [closed] forall k int {prevValues[k]} :: 0 <= k && k <= rangeindex && $impl(io.Closer, prevValues[k]) ==> $jclosecalls(prevValues[k]) > old($jclosecalls(prevValues[k]))
//@   loop 1: invariant [mono]   forall x ref {$jclosecalls(x)} :: $jclosecalls(x) >= old($jclosecalls(x))

// ---------------------------------------------------------------- queueManager
//@ func createQueueManager
//@   props C15
//@   modifies $alloc
//@   ensures result.strategy == strategy && len(result.Manager.items) == 0 && result.Manager.roundRobinIndex == 0

// next dispatches on the strategy to the Manager's selection function.
//@ func queueManager.next
//@   props C15 C01
//@   requires RI_Manager($addr(qm.Manager)) && (forall i int :: 0 <= i && i < len(qm.Manager.items) ==> $lenOf(qm.Manager.items[i]) >= 0)
//@   modifies qm.Manager.roundRobinIndex
//@   ensures [ri]      RI_Manager($addr(qm.Manager))
//@   ensures [invalid] qm.strategy != RoundRobin && qm.strategy != MaxLen && qm.strategy != MinLen ==> result0 == nil && result1 == errInvalidStrategyType
//@   ensures [hit]     result1 == nil ==> exists j int :: 0 <= j && j < len(qm.Manager.items) && result0 == qm.Manager.items[j] && $lenOf(qm.Manager.items[j]) > 0
//@   ensures [rr]      result1 == nil && qm.strategy == RoundRobin ==> exists j int :: 0 <= j && j < len(qm.Manager.items) && result0 == qm.Manager.items[j]
//@                       && (forall i int :: inCyc(len(qm.Manager.items), old(qm.Manager.roundRobinIndex), j, i) && j != old(qm.Manager.roundRobinIndex) ==> $lenOf(qm.Manager.items[i]) <= 0)
//@                       && qm.Manager.roundRobinIndex == (j + 1) % len(qm.Manager.items)
//@   ensures [max]     result1 == nil && qm.strategy == MaxLen ==> forall i int :: 0 <= i && i < len(qm.Manager.items) ==> $lenOf(qm.Manager.items[i]) <= $lenOf(result0)
//@   ensures [min]     result1 == nil && qm.strategy == MinLen ==> forall i int :: 0 <= i && i < len(qm.Manager.items) && $lenOf(qm.Manager.items[i]) > 0 ==> $lenOf(result0) <= $lenOf(qm.Manager.items[i])
//@   ensures [empty]   result1 != nil && (qm.strategy == RoundRobin || qm.strategy == MaxLen || qm.strategy == MinLen) ==> (forall i int :: 0 <= i && i < len(qm.Manager.items) ==> $lenOf(qm.Manager.items[i]) <= 0)

// ---------------------------------------------------------------- persistent / distributed queues
//@ func newPersistentQueue
//@   props C15 C17
//@   requires w != nil && QM(w)
//@   modifies $alloc, w.queues.Manager.items, w.queues.Manager.items[**]
//@   ensures [once]  len(w.queues.Manager.items) == old(len(w.queues.Manager.items)) + 1 && w.queues.Manager.items[old(len(w.queues.Manager.items))] == pq
//@   ensures [kept]  forall i int :: 0 <= i && i < old(len(w.queues.Manager.items)) ==> w.queues.Manager.items[i] == old(w.queues.Manager.items[i])

//@ func newPersistentPriorityQueue
//@   props C15 C17
//@   requires w != nil && QM(w) && len(w.queues.Manager.items) < MaxInt - 1
//@   modifies $alloc, w.queues.Manager.items, w.queues.Manager.items[**]
//@   ensures [once]  len(w.queues.Manager.items) == old(len(w.queues.Manager.items)) + 1 && w.queues.Manager.items[old(len(w.queues.Manager.items))] == pq
//@   ensures [kept]  forall i int :: 0 <= i && i < old(len(w.queues.Manager.items)) ==> w.queues.Manager.items[i] == old(w.queues.Manager.items[i])

// persistentQueue.Add: an unencodable payload or a refusing adapter rejects the submission with no effect on queue, counters or signal.
//@ func persistentQueue.Add
//@   props C12 C11 C01 C17 C16
//@   requires q.queue != nil && q.queue.externalBaseQueue != nil && q.queue.externalBaseQueue.w != nil && q.queue.internalQueue != nil
//@   requires forall k int :: 0 <= k && k < len(configs) ==> configs[k] != nil
//@   modifies $usercalls, $alloc, $wgdone[0], $lenOf(q.queue.internalQueue), $enq(q.queue.internalQueue), $lastEnq(q.queue.internalQueue), $submitted, $signals(q.queue.externalBaseQueue.w), $acks, $lastAck
//@   ensures [rejected] !result ==> $lenOf(q.queue.internalQueue) == old($lenOf(q.queue.internalQueue)) && $enq(q.queue.internalQueue) == old($enq(q.queue.internalQueue))
//@                        && $signals(q.queue.externalBaseQueue.w) == old($signals(q.queue.externalBaseQueue.w))
//@   ensures [accepted] result ==> $enq(q.queue.internalQueue) == old($enq(q.queue.internalQueue)) + 1 && $lenOf(q.queue.internalQueue) == old($lenOf(q.queue.internalQueue)) + 1
//@                        && $signals(q.queue.externalBaseQueue.w) == old($signals(q.queue.externalBaseQueue.w)) + 1
//@   ensures [counted]  forall m ref {$submitted(m)} :: $submitted(m) == old($submitted(m)) || (result && $submitted(m) == old($submitted(m)) + 1)

//@ func persistentPriorityQueue.Add
//@   props C12 C11 C01 C17 C16
//@   requires q.priorityQueue != nil && q.priorityQueue.externalBaseQueue != nil && q.priorityQueue.externalBaseQueue.w != nil && q.priorityQueue.internalQueue != nil
//@   requires forall k int :: 0 <= k && k < len(configs) ==> configs[k] != nil
//@   modifies $usercalls, $alloc, $lenOf(q.priorityQueue.internalQueue), $enq(q.priorityQueue.internalQueue), $lastEnq(q.priorityQueue.internalQueue), $lastEnqPrio(q.priorityQueue.internalQueue), $submitted, $signals(q.priorityQueue.externalBaseQueue.w)
//@   ensures [rejected] !result ==> $lenOf(q.priorityQueue.internalQueue) == old($lenOf(q.priorityQueue.internalQueue)) && $enq(q.priorityQueue.internalQueue) == old($enq(q.priorityQueue.internalQueue))
//@                        && $signals(q.priorityQueue.externalBaseQueue.w) == old($signals(q.priorityQueue.externalBaseQueue.w))
//@   ensures [accepted] result ==> $enq(q.priorityQueue.internalQueue) == old($enq(q.priorityQueue.internalQueue)) + 1 && $lastEnqPrio(q.priorityQueue.internalQueue) == priority
//@                        && $signals(q.priorityQueue.externalBaseQueue.w) == old($signals(q.priorityQueue.externalBaseQueue.w)) + 1
//@   ensures [counted]  forall m ref {$submitted(m)} :: $submitted(m) == old($submitted(m)) || (result && $submitted(m) == old($submitted(m)) + 1)

//@ func distributedQueue.Add
//@   props C12 C11
//@   requires dq.IDistributedQueue != nil
//@   requires forall k int :: 0 <= k && k < len(c) ==> c[k] != nil
//@   modifies $usercalls, $alloc, $wgdone[0], $lenOf(dq.IDistributedQueue), $enq(dq.IDistributedQueue), $lastEnq(dq.IDistributedQueue), $acks, $lastAck
//@   ensures [rejected] !result ==> $lenOf(dq.IDistributedQueue) == old($lenOf(dq.IDistributedQueue)) && $enq(dq.IDistributedQueue) == old($enq(dq.IDistributedQueue))
//@   ensures [accepted] result ==> $enq(dq.IDistributedQueue) == old($enq(dq.IDistributedQueue)) + 1 && $lenOf(dq.IDistributedQueue) == old($lenOf(dq.IDistributedQueue)) + 1

//@ func distributedPriorityQueue.Add
//@   props C12 C11
//@   requires dpq.IDistributedPriorityQueue != nil
//@   requires forall k int :: 0 <= k && k < len(c) ==> c[k] != nil
//@   modifies $usercalls, $alloc, $wgdone[0], $lenOf(dpq.IDistributedPriorityQueue), $enq(dpq.IDistributedPriorityQueue), $lastEnq(dpq.IDistributedPriorityQueue), $lastEnqPrio(dpq.IDistributedPriorityQueue), $acks, $lastAck
//@   ensures [rejected] !result ==> $lenOf(dpq.IDistributedPriorityQueue) == old($lenOf(dpq.IDistributedPriorityQueue)) && $enq(dpq.IDistributedPriorityQueue) == old($enq(dpq.IDistributedPriorityQueue))
//@   ensures [accepted] result ==> $enq(dpq.IDistributedPriorityQueue) == old($enq(dpq.IDistributedPriorityQueue)) + 1 && $lastEnqPrio(dpq.IDistributedPriorityQueue) == priority
