//go:build verif

// Interface-level contracts of package varmq (what the generic worker/queue code may assume of the values it holds through interfaces),
// checked and used by /verif (vq). Comment-only file: no executable code.
package varmq

//@ package varmq

// ---------------------------------------------------------------- ghost views of interface-held objects
// metrics
//@ ghost $submitted fun Int
//@ ghost $completed fun Int
//@ ghost $successful fun Int
//@ ghost $failed fun Int
// the Metrics object a Worker hands out (always the same one)
//@ ghost $metricsOf fun Int
// jobs: status, outcome accounting (number of results / errors delivered to the handle and the last ones), acknowledgement id, source queue
//@ ghost $jstatus fun Int
//@ ghost $nresults fun Int
//@ ghost $nerrors fun Int
//@ ghost $lastError fun Int
//@ ghost $jackid fun Str
//@ ghost $jqueue fun Int
//@ ghost $jclosecalls fun Int
// queues (adapters): $lenOf is declared in package helpers; $enq/$deq count accepted enqueues / successful dequeues, $lastEnq the last accepted item
//@ ghost $enq fun Int
//@ ghost $deq fun Int
//@ ghost $lastEnq fun Int
//@ ghost $lastEnqPrio fun Int
//@ ghost $qclosed fun Bool
//@ ghost $purges fun Int
//@ ghost $acks fun Int
//@ ghost $lastAck fun Str
//@ ghost $subs fun Int
// worker seen through the Worker interface: number of wake-up signals raised
//@ ghost $signals fun Int

// ---------------------------------------------------------------- Metrics
//@ iface Metrics.incSubmitted
//@   modifies $submitted(self)
//@   ensures $submitted(self) == old($submitted(self)) + 1
//@ iface Metrics.incCompleted
//@   modifies $completed(self)
//@   ensures $completed(self) == old($completed(self)) + 1
//@ iface Metrics.incSuccessful
//@   modifies $successful(self)
//@   ensures $successful(self) == old($successful(self)) + 1
//@ iface Metrics.incFailed
//@   modifies $failed(self)
//@   ensures $failed(self) == old($failed(self)) + 1

// ---------------------------------------------------------------- jobs as seen by the worker (iJob / iErrorJob / iResultJob)
//@ iface iJob.IsClosed
//@   ensures result == ($jstatus(self) == closed)
//@ iface iJob.changeStatus
//@   modifies $jstatus(self)
//@   ensures $jstatus(self) == s
//@ iface iJob.setAckId
//@   modifies $jackid(self)
//@   ensures $jackid(self) == id
//@ iface iJob.setInternalQueue
//@   modifies $jqueue(self)
//@   ensures $jqueue(self) == q
//@ iface iJob.Close
//@   modifies $jstatus(self), $jclosecalls(self), $acks, $lastAck
//@   ensures $jclosecalls(self) == old($jclosecalls(self)) + 1
//@   ensures result == nil ==> $jstatus(self) == closed
//@   ensures result != nil ==> $jstatus(self) == old($jstatus(self))
//@ iface iErrorJob.sendError
//@   modifies $nerrors(self), $lastError(self)
//@   ensures $nerrors(self) == old($nerrors(self)) + 1 && $lastError(self) == err
//@ iface iResultJob.sendResult
//@   modifies $nresults(self)
//@   ensures $nresults(self) == old($nresults(self)) + 1

// ---------------------------------------------------------------- queues (adapters)
//@ assumption: adapter methods (Len, Enqueue, Dequeue, DequeueWithAckId, Acknowledge, Values, Purge, Close, Subscribe) behave as their interface contracts say and are atomic; Len() >= 0
//@ iface IBaseQueue.Len
//@   ensures result == $lenOf(self) && result >= 0
//@ iface IBaseQueue.Dequeue
//@   modifies $lenOf(self), $deq(self)
//@   ensures result1 ==> $lenOf(self) == old($lenOf(self)) - 1 && $deq(self) == old($deq(self)) + 1 && old($lenOf(self)) > 0
//@   ensures !result1 ==> $lenOf(self) == old($lenOf(self)) && $deq(self) == old($deq(self))
//@ iface IBaseQueue.Values
//@   ensures len(result) == $lenOf(self)
//@ iface IBaseQueue.Purge
//@   modifies $lenOf(self), $purges(self)
//@   ensures $lenOf(self) == 0 && $purges(self) == old($purges(self)) + 1
//@ iface IBaseQueue.Close
//@   modifies $qclosed(self)
//@   ensures $qclosed(self)
//@ iface IQueue.Enqueue
//@   modifies $lenOf(self), $enq(self), $lastEnq(self)
//@   ensures result ==> $lenOf(self) == old($lenOf(self)) + 1 && $enq(self) == old($enq(self)) + 1 && $lastEnq(self) == item
//@   ensures !result ==> $lenOf(self) == old($lenOf(self)) && $enq(self) == old($enq(self)) && $lastEnq(self) == old($lastEnq(self))
//@ iface IPriorityQueue.Enqueue
//@   modifies $lenOf(self), $enq(self), $lastEnq(self), $lastEnqPrio(self)
//@   ensures result ==> $lenOf(self) == old($lenOf(self)) + 1 && $enq(self) == old($enq(self)) + 1 && $lastEnq(self) == item && $lastEnqPrio(self) == priority
//@   ensures !result ==> $lenOf(self) == old($lenOf(self)) && $enq(self) == old($enq(self)) && $lastEnq(self) == old($lastEnq(self))
//@ iface IAcknowledgeable.DequeueWithAckId
//@   modifies $lenOf(self), $deq(self)
//@   ensures result1 ==> $lenOf(self) == old($lenOf(self)) - 1 && $deq(self) == old($deq(self)) + 1 && old($lenOf(self)) > 0
//@   ensures !result1 ==> $lenOf(self) == old($lenOf(self)) && $deq(self) == old($deq(self))
//@ iface IAcknowledgeable.Acknowledge
//@   modifies $acks(self), $lastAck(self)
//@   ensures $acks(self) == old($acks(self)) + 1 && $lastAck(self) == ackID
//@ iface ISubscribable.Subscribe
//@   modifies $subs(self)
//@   ensures $subs(self) == old($subs(self)) + 1

// ---------------------------------------------------------------- Worker, as seen by the queue wrappers
//@ iface Worker.notifyToPullNextJobs
//@   modifies $signals(self)
//@   ensures $signals(self) == old($signals(self)) + 1
//@ iface Worker.Metrics
//@   ensures result != nil && result == $metricsOf(self)
