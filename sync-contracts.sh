#!/bin/sh
# copies the contract files (comment-only, build tag verif) from the mirror /verif/contracts/repo into /repo
set -e
cd /verif/contracts/repo
find . -name '*_verif.go' | while read f; do mkdir -p "/repo/$(dirname "$f")"; cp "$f" "/repo/$f"; done
cd /repo && gofmt -l . | grep _verif.go || true
