#!/bin/sh
# builds the verifier from files on disk only (module cache); offline
set -e
cd "$(dirname "$0")"
export GOFLAGS=-mod=mod GOPROXY=off
mkdir -p bin evidence replays
[ -d vq ] && (cd vq && go build -o ../bin/vq .) || true
