;@ module list
; linkedlist.List: a ring through the sentinel root with a ghost position sequence: at(0) = root, at(1..len) the nodes front to back,
; pos the inverse of at, inL membership. With it `len` really is the number of nodes and len > 0 => root.prev != root.
;@ pred RI_List(l) := RI_List | heap F:linkedlist.Node.next (Array Int Int) | heap F:linkedlist.Node.prev (Array Int Int) | expr l.$at | expr l.$pos | expr l.$in | expr l | expr l.len
;@ pred Detached(n) := Detached | heap F:linkedlist.Node.next (Array Int Int) | heap F:linkedlist.Node.prev (Array Int Int) | expr n
(define-fun RI_List ((nxt (Array Int Int)) (prv (Array Int Int)) (at (Array Int Int)) (pos (Array Int Int)) (inL (Array Int Bool)) (root Int) (len Int)) Bool
 (and (not (= root 0)) (>= len 0) (= (select at 0) root) (select inL root) (= (select pos root) 0) (not (select inL 0))
  (forall ((i Int)) (! (=> (and (<= 0 i) (<= i len))
      (and (select inL (select at i)) (not (= (select at i) 0)) (= (select pos (select at i)) i)
           (= (select nxt (select at i)) (select at (ite (= i len) 0 (+ i 1))))
           (= (select prv (select at i)) (select at (ite (= i 0) len (- i 1))))))
      :pattern ((select at i))))
  (forall ((n Int)) (! (=> (select inL n) (and (<= 0 (select pos n)) (<= (select pos n) len) (= (select at (select pos n)) n)))
      :pattern ((select inL n))))))
(define-fun Detached ((nxt (Array Int Int)) (prv (Array Int Int)) (n Int)) Bool (and (= (select nxt n) 0) (= (select prv n) 0)))
