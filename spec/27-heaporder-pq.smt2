;@ module heaporder.pq
; The order queues.heapQueue.Less implements, on entry references: lexicographic on (Priority, Index). Both fields are write-once
; (set when the entry is created in PriorityQueue.Enqueue), hence functions of the reference.
;@ declare imm.queues.enqItem.Priority (Int) Int
;@ declare imm.queues.enqItem.Index (Int) Int
(define-fun hlt_abs ((p Int) (q Int)) Bool
  (or (< (imm.queues.enqItem.Priority p) (imm.queues.enqItem.Priority q))
      (and (= (imm.queues.enqItem.Priority p) (imm.queues.enqItem.Priority q)) (< (imm.queues.enqItem.Index p) (imm.queues.enqItem.Index q)))))
