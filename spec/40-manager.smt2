;@ module manager
; Template over the element sort %S% of Manager.items.
; sumLen(lenOf, elems, k) = sum of lenOf(elems[i]) for i < k   (lenOf: the ghost length map; elems: the items backing array)
;@ pred sumLen(items, k) -> Int := sumLen.%S% sortof $elems(items)[0] | heap G:$lenOf<%S%> (Array %S% Int) | expr $elems(items) | expr k
(declare-fun |sumLen.%S%| ((Array %S% Int) (Array Int %S%) Int) Int)
(assert (forall ((L (Array %S% Int)) (E (Array Int %S%))) (! (= (|sumLen.%S%| L E 0) 0) :pattern ((|sumLen.%S%| L E 0)))))
(assert (forall ((L (Array %S% Int)) (E (Array Int %S%)) (k Int)) (! (=> (> k 0) (= (|sumLen.%S%| L E k) (+ (|sumLen.%S%| L E (- k 1)) (select L (select E (- k 1)))))) :pattern ((|sumLen.%S%| L E k)))))
