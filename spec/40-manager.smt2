;@ module manager
; sumLen(lenOf, elems, k) = sum of lenOf(elems[i]) for i < k   (lenOf: the ghost length map; elems: the items backing array)
;@ pred sumLen(items, k) -> Int := sumLen | heap G:$lenOf<TP_T> (Array TP_T Int) | expr $elems(items) | expr k
(declare-fun sumLen ((Array TP_T Int) (Array Int TP_T) Int) Int)
(assert (forall ((L (Array TP_T Int)) (E (Array Int TP_T))) (! (= (sumLen L E 0) 0) :pattern ((sumLen L E 0)))))
(assert (forall ((L (Array TP_T Int)) (E (Array Int TP_T)) (k Int)) (! (=> (> k 0) (= (sumLen L E k) (+ (sumLen L E (- k 1)) (select L (select E (- k 1)))))) :pattern ((sumLen L E k)))))
