;@ module queue
; Representation invariant of queues.Queue over the chunk chain.
;   R, W        : Chunk.NextReadIndex / NextWriteIndex
;   Cap,Len,Arr : Chunk.Data slice header (capacity, length, backing array)
;   Nxt         : Chunk.Next
;   El          : contents of the backing arrays of []T
;   base, inQ   : ghost, per queue: absolute index of slot 0 of a chunk / membership of a chunk in the chain
;   lg          : ghost, per queue: acceptance log since the last purge; the view of the queue is lg[r..w)
;@ pred RI_Queue(q) := RI_Queue | heap alloc (Array Int Bool) | heap F:linkedbuffer.Chunk.NextReadIndex (Array Int Int) | heap F:linkedbuffer.Chunk.NextWriteIndex (Array Int Int) | heap F:linkedbuffer.Chunk.Data.#cap (Array Int Int) | heap F:linkedbuffer.Chunk.Data.#len (Array Int Int) | heap F:linkedbuffer.Chunk.Data.#arr (Array Int Int) | heap F:linkedbuffer.Chunk.Next (Array Int Int) | heap E:TP_T (Array Int (Array Int TP_T)) | expr q.$base | expr q.$inQ | expr q.$lg | expr q.readChunk | expr q.writeChunk | expr q.readCount | expr q.writeCount | expr q.maxCapacity
(define-fun RI_Queue ((al (Array Int Bool)) (R (Array Int Int)) (W (Array Int Int)) (Cap (Array Int Int)) (Len (Array Int Int)) (Arr (Array Int Int)) (Nxt (Array Int Int))
                      (El (Array Int (Array Int TP_T))) (base (Array Int Int)) (inQ (Array Int Bool)) (lg (Array Int TP_T))
                      (rc Int) (wc Int) (r Int) (w Int) (maxCap Int)) Bool
 (and (>= maxCap 1) (<= maxCap 4611686018427387904) (select inQ rc) (select inQ wc) (= (select Nxt wc) 0) (<= 0 r) (<= r w)
  (forall ((c Int)) (! (=> (select inQ c)
      (and (not (= c 0)) (select al c) (select al (select Arr c)) (not (= (select Arr c) 0))
           (<= 0 (select R c)) (<= (select R c) (select W c)) (<= (select W c) (select Cap c)) (>= (select Cap c) 1)
           (= (select Len c) (select Cap c)) (<= (select Cap c) 4611686018427387904)
           (<= (select base rc) (select base c)) (<= (select base c) (select base wc))
           (=> (not (= c wc)) (and (not (= (select Nxt c) 0)) (select inQ (select Nxt c)) (= (select W c) (select Cap c))
                                   (= (select base (select Nxt c)) (+ (select base c) (select Cap c)))
                                   (>= (select W (select Nxt c)) 1)))
           (=> (not (= c rc)) (= (select R c) 0))))
      :pattern ((select inQ c))))
  (forall ((c Int) (d Int)) (! (=> (and (select inQ c) (select inQ d) (not (= c d)))
                                   (and (not (= (select Arr c) (select Arr d)))
                                        (or (<= (+ (select base c) (select Cap c)) (select base d)) (<= (+ (select base d) (select Cap d)) (select base c)))))
      :pattern ((select inQ c) (select inQ d))))
  (= (+ (select base rc) (select R rc)) r) (= (+ (select base wc) (select W wc)) w)
  (forall ((c Int) (i Int)) (! (=> (and (select inQ c) (<= (select R c) i) (< i (select W c)))
                                   (= (select (select El (select Arr c)) i) (select lg (+ (select base c) i))))
      :pattern ((select (select El (select Arr c)) i))))))
