;@ module heap requires heaporder
; Binary-heap invariants over the abstract element array a[0..n) of a heap.Interface value (container/heap.up/down/Push/Pop).
;@ pred hlt(x, y) := hlt_abs | expr x | expr y
;@ pred Heap(a, n) := Heap | expr a | expr n
;@ pred InvUp(a, n, j) := InvUp | expr a | expr n | expr j
;@ pred InvDown(a, m, i) := InvDown | expr a | expr m | expr i
;@ pred HWF(a, n, mem, idx) := HWF | expr a | expr n | expr mem | expr idx
;@ pred RootMin(a, n) := RootMin | expr a | expr n
;@ pred MinOf(mem, x) := MinOf | expr mem | expr x
(define-fun P ((k Int)) Int (div (- k 1) 2))
(define-fun Heap ((a (Array Int Int)) (n Int)) Bool
  (forall ((k Int)) (! (=> (and (<= 1 k) (< k n)) (not (hlt_abs (select a k) (select a (P k))))) :pattern ((select a k)))))
(define-fun InvUp ((a (Array Int Int)) (n Int) (j Int)) Bool
 (and (<= 0 j) (< j n)
  (forall ((k Int)) (! (=> (and (<= 1 k) (< k n) (not (= k j))) (not (hlt_abs (select a k) (select a (P k))))) :pattern ((select a k))))
  (forall ((k Int)) (! (=> (and (<= 1 k) (< k n) (= (P k) j) (>= j 1)) (not (hlt_abs (select a k) (select a (P j))))) :pattern ((select a k))))))
(define-fun InvDown ((a (Array Int Int)) (m Int) (i Int)) Bool
 (and (<= 0 i)
  (forall ((k Int)) (! (=> (and (<= 1 k) (< k m) (not (= (P k) i))) (not (hlt_abs (select a k) (select a (P k))))) :pattern ((select a k))))
  (forall ((k Int)) (! (=> (and (<= 1 k) (< k m) (= (P k) i) (>= i 1)) (not (hlt_abs (select a k) (select a (P i))))) :pattern ((select a k))))))
; well-formedness of the ghost membership view: mem = { a[k] | k < n }, idx is the inverse of a on [0,n) (so a is injective there)
(define-fun HWF ((a (Array Int Int)) (n Int) (mem (Array Int Bool)) (idx (Array Int Int))) Bool
 (and (>= n 0)
  (forall ((k Int)) (! (=> (and (<= 0 k) (< k n)) (and (select mem (select a k)) (= (select idx (select a k)) k))) :pattern ((select a k))))
  (forall ((e Int)) (! (=> (select mem e) (and (<= 0 (select idx e)) (< (select idx e) n) (= (select a (select idx e)) e))) :pattern ((select mem e))))))
(define-fun RootMin ((a (Array Int Int)) (n Int)) Bool
  (forall ((k Int)) (! (=> (and (<= 0 k) (< k n)) (not (hlt_abs (select a k) (select a 0)))) :pattern ((select a k)))))
(define-fun MinOf ((mem (Array Int Bool)) (x Int)) Bool
  (forall ((e Int)) (! (=> (select mem e) (not (hlt_abs e x))) :pattern ((select mem e)))))
