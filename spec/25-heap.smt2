;@ module heaporder.abs
; The order a heap.Interface implementation exposes through Less: any strict weak order on elements (interface values).
(declare-fun hlt_abs (Int Int) Bool)
(assert (forall ((x Int)) (! (not (hlt_abs x x)) :pattern ((hlt_abs x x)))))
(assert (forall ((x Int) (y Int) (z Int)) (! (=> (and (hlt_abs x y) (hlt_abs y z)) (hlt_abs x z)) :pattern ((hlt_abs x y) (hlt_abs y z)))))
(assert (forall ((x Int) (y Int) (z Int)) (! (=> (and (not (hlt_abs x y)) (not (hlt_abs y z))) (not (hlt_abs x z))) :pattern ((hlt_abs x y) (hlt_abs y z)))))
