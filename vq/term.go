package main

import (
	"fmt"
	"strings"
)

// Term is an SMT-LIB term with its sort.
type Term struct {
	S    string
	Sort string
}

const (
	SInt  = "Int"
	SBool = "Bool"
	SStr  = "Str"
)

func arrSort(idx, elem string) string { return "(Array " + idx + " " + elem + ")" }

// arrayParts splits "(Array I E)" into I and E.
func arrayParts(s string) (string, string, bool) {
	if !strings.HasPrefix(s, "(Array ") {
		return "", "", false
	}
	body := s[len("(Array ") : len(s)-1]
	// first sort may be parenthesised
	depth := 0
	for i, c := range body {
		switch c {
		case '(':
			depth++
		case ')':
			depth--
		case ' ':
			if depth == 0 {
				return body[:i], body[i+1:], true
			}
		}
	}
	return "", "", false
}

func tInt(n int64) Term {
	if n < 0 {
		return Term{fmt.Sprintf("(- %d)", -n), SInt}
	}
	return Term{fmt.Sprintf("%d", n), SInt}
}
func tIntStr(s string) Term {
	if strings.HasPrefix(s, "-") {
		return Term{"(- " + s[1:] + ")", SInt}
	}
	return Term{s, SInt}
}
func tBool(b bool) Term {
	if b {
		return Term{"true", SBool}
	}
	return Term{"false", SBool}
}

var tTrue = tBool(true)
var tFalse = tBool(false)

func app(op, sort string, args ...Term) Term {
	var b strings.Builder
	b.WriteString("(")
	b.WriteString(op)
	for _, a := range args {
		b.WriteString(" ")
		b.WriteString(a.S)
	}
	b.WriteString(")")
	return Term{b.String(), sort}
}

func tNot(a Term) Term {
	if a.S == "true" {
		return tFalse
	}
	if a.S == "false" {
		return tTrue
	}
	return app("not", SBool, a)
}
func tAnd(as ...Term) Term {
	var keep []Term
	for _, a := range as {
		if a.S == "true" {
			continue
		}
		if a.S == "false" {
			return tFalse
		}
		keep = append(keep, a)
	}
	if len(keep) == 0 {
		return tTrue
	}
	if len(keep) == 1 {
		return keep[0]
	}
	return app("and", SBool, keep...)
}
func tOr(as ...Term) Term {
	var keep []Term
	for _, a := range as {
		if a.S == "false" {
			continue
		}
		if a.S == "true" {
			return tTrue
		}
		keep = append(keep, a)
	}
	if len(keep) == 0 {
		return tFalse
	}
	if len(keep) == 1 {
		return keep[0]
	}
	return app("or", SBool, keep...)
}
func tImp(a, b Term) Term {
	if a.S == "true" {
		return b
	}
	if a.S == "false" || b.S == "true" {
		return tTrue
	}
	return app("=>", SBool, a, b)
}
func tEq(a, b Term) Term {
	if a.S == b.S {
		return tTrue
	}
	return app("=", SBool, a, b)
}
func tIte(c, a, b Term) Term {
	if c.S == "true" {
		return a
	}
	if c.S == "false" {
		return b
	}
	return app("ite", a.Sort, c, a, b)
}
func tSelect(arr, idx Term) Term {
	_, e, ok := arrayParts(arr.Sort)
	if !ok {
		panic("select on non-array sort " + arr.Sort + " term " + arr.S)
	}
	return app("select", e, arr, idx)
}
func tStore(arr, idx, v Term) Term { return app("store", arr.Sort, arr, idx, v) }
func isLit(t Term) bool {
	if t.S == "" {
		return false
	}
	for _, c := range t.S {
		if c < '0' || c > '9' {
			return false
		}
	}
	return len(t.S) < 18
}
func litVal(t Term) int64 { var n int64; fmt.Sscanf(t.S, "%d", &n); return n }
func tAdd(a, b Term) Term {
	if isLit(a) && isLit(b) {
		return tInt(litVal(a) + litVal(b))
	}
	if b.S == "0" {
		return a
	}
	if a.S == "0" {
		return b
	}
	return app("+", SInt, a, b)
}
func tSub(a, b Term) Term {
	if isLit(a) && isLit(b) {
		return tInt(litVal(a) - litVal(b))
	}
	if b.S == "0" {
		return a
	}
	return app("-", SInt, a, b)
}
func tMul(a, b Term) Term          { return app("*", SInt, a, b) }
func tLe(a, b Term) Term           { return app("<=", SBool, a, b) }
func tLt(a, b Term) Term           { return app("<", SBool, a, b) }
func tGe(a, b Term) Term           { return app(">=", SBool, a, b) }
func tGt(a, b Term) Term           { return app(">", SBool, a, b) }

// smtIdent makes a string usable as an SMT simple symbol (or quoted symbol if needed).
func smtIdent(s string) string {
	ok := true
	for _, c := range s {
		if !(c >= 'a' && c <= 'z' || c >= 'A' && c <= 'Z' || c >= '0' && c <= '9' || strings.ContainsRune("_.$!~", c)) {
			ok = false
			break
		}
	}
	if ok && s != "" && !(s[0] >= '0' && s[0] <= '9') {
		return s
	}
	return "|" + strings.ReplaceAll(strings.ReplaceAll(s, "|", "!"), "\\", "!") + "|"
}
