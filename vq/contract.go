package main

import (
	"bufio"
	"fmt"
	"os"
	"path/filepath"
	"regexp"
	"sort"
	"strings"
)

// Clause is one line group of a contract: keyword, optional [label], optional mode tag, and text.
type Clause struct {
	Kw    string
	Label string
	Mode  string // "", B1, B2, B3
	Text  string
	Expr  *CExpr // parsed lazily for expression clauses
	File  string
	Line  int
	Loop  int // for loop clauses
	LoopFn string // loop of an inlined callee: its funcKey
}

type FuncContract struct {
	Pkg     string // short package name
	Key     string // funcKey, e.g. "linkedbuffer.Chunk.Push"
	Clauses []*Clause
	Props   []string
	Inline  bool
	Trusted bool // contract is assumed, body not verified (must be listed in evidence)
	File    string
	Line    int
}

type TypeDecl struct {
	Pkg     string
	Name    string // e.g. "Queue"
	Clauses []*Clause
}

type GhostDecl struct {
	Name string // without $
	Sort string // SMT sort text with TP_ names, e.g. "(Array Int Int)"
}

type Lemma struct {
	Induct  string
	Pkg     string
	Name    string
	Params  []Binder
	Clauses []*Clause
	Props   []string
}

type CPred struct {
	Pkg     string
	Name    string
	Formals []Binder
	Body    *Clause
}

type Contracts struct {
	Preds       map[string]*CPred // contract-level predicates (macros), key pkg.Name and bare Name
	Funcs       map[string]*FuncContract
	Types       map[string]*TypeDecl // key pkg.Name
	Ifaces      map[string]*FuncContract // key "pkg.Iface.method"
	Ghosts      map[string]*GhostDecl
	Lemmas      []*Lemma
	Assumptions []string // "pkg: text"
	Frames      []*Clause
	Files       []string
	Source      map[string]string // file -> "repo" or "mirror"
}

var clauseKw = map[string]bool{"requires": true, "ensures": true, "modifies": true, "loop": true, "ghost": true, "order": true,
	"unreachable": true, "props": true, "inline": true, "trusted": true, "ensures_on_panic": true, "publishes": true, "assert": true,
	"invariant": true, "guarded_by": true, "frozen": true, "concurrent": true, "b2_safety": true, "jsontag": true, "holds": true, "reads": true, "atomic": true, "immutable": true, "apply": true, "induct": true, "inlines": true, "pool": true, "contains_panics": true, "rely": true, "dead_loop": true, "callee_frame": true, "decreases": true}

var labelRe = regexp.MustCompile(`^\[([A-Za-z0-9_.:@\-]+)\]\s*`)

func newContracts() *Contracts {
	return &Contracts{Preds: map[string]*CPred{}, Funcs: map[string]*FuncContract{}, Types: map[string]*TypeDecl{}, Ifaces: map[string]*FuncContract{}, Ghosts: map[string]*GhostDecl{}, Source: map[string]string{}}
}

// loadContracts reads //@ files: for each package dir of the repo, contracts_verif.go (repo wins; mirror as fallback), plus std contracts.
func loadContracts(repo, verifDir string) (*Contracts, error) {
	cs := newContracts()
	mirror := filepath.Join(verifDir, "contracts", "repo")
	// enumerate mirror files; for each, prefer repo copy
	var rels []string
	filepath.Walk(mirror, func(p string, info os.FileInfo, err error) error {
		if err == nil && !info.IsDir() && strings.HasSuffix(p, "_verif.go") {
			r, _ := filepath.Rel(mirror, p)
			rels = append(rels, r)
		}
		return nil
	})
	// also any contracts file present only in repo
	filepath.Walk(repo, func(p string, info os.FileInfo, err error) error {
		if err == nil && !info.IsDir() && strings.HasPrefix(filepath.Base(p), "contracts") && strings.HasSuffix(p, "_verif.go") {
			r, _ := filepath.Rel(repo, p)
			found := false
			for _, x := range rels {
				if x == r {
					found = true
				}
			}
			if !found {
				rels = append(rels, r)
			}
		}
		return nil
	})
	sort.Strings(rels)
	for _, r := range rels {
		p := filepath.Join(repo, r)
		src := "repo"
		if _, err := os.Stat(p); err != nil {
			p = filepath.Join(mirror, r)
			src = "mirror"
		}
		if err := cs.parseFile(p); err != nil {
			return nil, err
		}
		cs.Source[r] = src
	}
	stdDir := filepath.Join(verifDir, "contracts", "std")
	ents, _ := os.ReadDir(stdDir)
	for _, e := range ents {
		if strings.HasSuffix(e.Name(), ".contract") {
			if err := cs.parseFile(filepath.Join(stdDir, e.Name())); err != nil {
				return nil, err
			}
			cs.Source["std/"+e.Name()] = "verif"
		}
	}
	return cs, nil
}

func (cs *Contracts) parseFile(path string) error {
	f, err := os.Open(path)
	if err != nil {
		return err
	}
	defer f.Close()
	cs.Files = append(cs.Files, path)
	sc := bufio.NewScanner(f)
	sc.Buffer(make([]byte, 1<<20), 1<<20)
	pkg := ""
	var curClauses *[]*Clause
	var curFn *FuncContract
	var curLemma *Lemma
	var last *Clause
	ln := 0
	for sc.Scan() {
		ln++
		line := sc.Text()
		t := strings.TrimSpace(line)
		if !strings.HasPrefix(t, "//@") {
			continue
		}
		body := strings.TrimSpace(t[3:])
		// strip trailing comment " // ..." (only when preceded by two spaces to avoid cutting inside expressions)
		if i := strings.Index(body, "  //"); i >= 0 {
			body = strings.TrimSpace(body[:i])
		}
		if body == "" {
			continue
		}
		fields := strings.Fields(body)
		kw := fields[0]
		rest := strings.TrimSpace(body[len(kw):])
		switch {
		case kw == "package":
			pkg = rest
			curClauses, curFn, curLemma, last = nil, nil, nil, nil
		case kw == "func":
			key := rest
			if i := strings.IndexAny(key, " ("); i >= 0 {
				key = key[:i]
			}
			fc := &FuncContract{Pkg: pkg, Key: pkg + "." + key, File: path, Line: ln}
			if old, dup := cs.Funcs[fc.Key]; dup {
				return fmt.Errorf("%s:%d: duplicate contract for %s (first at %s:%d)", path, ln, fc.Key, old.File, old.Line)
			}
			cs.Funcs[fc.Key] = fc
			curFn, curLemma = fc, nil
			curClauses = &fc.Clauses
			last = nil
		case kw == "functype":
			// functype Name : contract of calls through values of the named function type
			key := strings.TrimSpace(rest)
			fc := &FuncContract{Pkg: pkg, Key: pkg + "." + key + ".call", File: path, Line: ln}
			cs.Ifaces[fc.Key] = fc
			curFn, curLemma = fc, nil
			curClauses = &fc.Clauses
			last = nil
		case kw == "iface":
			// iface Name.method
			key := rest
			if i := strings.IndexAny(key, " :"); i >= 0 {
				key = key[:i]
			}
			fc := &FuncContract{Pkg: pkg, Key: pkg + "." + key, File: path, Line: ln}
			cs.Ifaces[fc.Key] = fc
			curFn, curLemma = fc, nil
			curClauses = &fc.Clauses
			last = nil
		case kw == "type":
			// type Name: clause...
			i := strings.Index(rest, ":")
			if i < 0 {
				return fmt.Errorf("%s:%d: type decl needs ':'", path, ln)
			}
			name := strings.TrimSpace(rest[:i])
			td := cs.Types[pkg+"."+name]
			if td == nil {
				td = &TypeDecl{Pkg: pkg, Name: name}
				cs.Types[pkg+"."+name] = td
			}
			cl, err := parseClauseLine(strings.TrimSpace(rest[i+1:]), path, ln)
			if err != nil {
				return err
			}
			td.Clauses = append(td.Clauses, cl)
			curFn, curLemma = nil, nil
			curClauses = &td.Clauses
			last = cl
		case kw == "ghost" && curFn == nil && curLemma == nil && strings.HasPrefix(rest, "$") && !strings.Contains(rest, ":="):
			// global ghost:  ghost $name <sort>
			fs := strings.SplitN(rest, " ", 2)
			if len(fs) != 2 {
				return fmt.Errorf("%s:%d: ghost decl needs a sort", path, ln)
			}
			cs.Ghosts[fs[0][1:]] = &GhostDecl{Name: fs[0][1:], Sort: strings.TrimSpace(fs[1])}
			last = nil
		case kw == "lemma":
			// lemma name(a T, b T)
			name := rest
			params := ""
			if i := strings.Index(rest, "("); i >= 0 {
				name = rest[:i]
				params = rest[i+1 : strings.LastIndex(rest, ")")]
			}
			lm := &Lemma{Pkg: pkg, Name: strings.TrimSpace(name)}
			for _, pt := range splitTargets(params) {
				pt = strings.TrimSpace(pt)
				if pt == "" {
					continue
				}
				fs := strings.SplitN(pt, " ", 2)
				if len(fs) != 2 {
					return fmt.Errorf("%s:%d: lemma parameter %q needs 'name sort'", path, ln, pt)
				}
				lm.Params = append(lm.Params, Binder{fs[0], strings.TrimSpace(fs[1])})
			}
			cs.Lemmas = append(cs.Lemmas, lm)
			curFn, curLemma = nil, lm
			curClauses = &lm.Clauses
			last = nil
		case kw == "pred":
			// pred Name(a *T, b int) := expr
			i := strings.Index(rest, ":=")
			if i < 0 {
				return fmt.Errorf("%s:%d: pred needs ':='", path, ln)
			}
			head := strings.TrimSpace(rest[:i])
			j := strings.Index(head, "(")
			if j < 0 {
				return fmt.Errorf("%s:%d: pred needs parameters", path, ln)
			}
			cp := &CPred{Pkg: pkg, Name: strings.TrimSpace(head[:j])}
			for _, pt := range strings.Split(head[j+1:strings.LastIndex(head, ")")], ",") {
				pt = strings.TrimSpace(pt)
				if pt == "" {
					continue
				}
				fs := strings.Fields(pt)
				if len(fs) != 2 {
					return fmt.Errorf("%s:%d: pred parameter %q needs 'name type'", path, ln, pt)
				}
				cp.Formals = append(cp.Formals, Binder{fs[0], fs[1]})
			}
			cp.Body = &Clause{Kw: "pred", Text: strings.TrimSpace(rest[i+2:]), File: path, Line: ln}
			cs.Preds[pkg+"."+cp.Name] = cp
			cs.Preds[cp.Name] = cp
			curFn, curLemma = nil, nil
			curClauses = nil
			last = cp.Body
		case kw == "assumption:":
			cs.Assumptions = append(cs.Assumptions, pkg+": "+rest)
			last = nil
		case kw == "frame":
			cs.Frames = append(cs.Frames, &Clause{Kw: "frame", Text: rest, File: path, Line: ln})
			last = nil
		case clauseKw[strings.TrimSuffix(kw, ":")] && curClauses != nil:
			cl, err := parseClauseLine(body, path, ln)
			if err != nil {
				return err
			}
			switch cl.Kw {
			case "induct":
				if curLemma != nil {
					curLemma.Induct = strings.TrimSpace(cl.Text)
				}
			case "props":
				ps := strings.Fields(cl.Text)
				if curFn != nil {
					curFn.Props = append(curFn.Props, ps...)
				} else if curLemma != nil {
					curLemma.Props = append(curLemma.Props, ps...)
				}
			case "inline":
				if curFn != nil {
					curFn.Inline = true
				}
			case "trusted":
				if curFn != nil {
					curFn.Trusted = true
				}
			default:
				*curClauses = append(*curClauses, cl)
			}
			last = cl
		default:
			// continuation of previous clause
			if last == nil {
				return fmt.Errorf("%s:%d: cannot parse contract line %q", path, ln, body)
			}
			last.Text += " " + body
		}
	}
	return sc.Err()
}

func parseClauseLine(body, path string, ln int) (*Clause, error) {
	fields := strings.Fields(body)
	kw := strings.TrimSuffix(fields[0], ":")
	rest := strings.TrimSpace(body[len(fields[0]):])
	cl := &Clause{Kw: kw, File: path, Line: ln}
	if kw == "loop" {
		// loop <k>: invariant|decreases ...
		i := strings.Index(rest, ":")
		if i < 0 {
			return nil, fmt.Errorf("%s:%d: loop clause needs ':'", path, ln)
		}
		lid := strings.TrimSpace(rest[:i])
		if j := strings.LastIndex(lid, "#"); j >= 0 {
			cl.LoopFn = lid[:j]
			lid = lid[j+1:]
		}
		fmt.Sscanf(lid, "%d", &cl.Loop)
		rest = strings.TrimSpace(rest[i+1:])
		fs := strings.Fields(rest)
		cl.Kw = "loop-" + fs[0]
		rest = strings.TrimSpace(rest[len(fs[0]):])
	}
	for {
		if m := labelRe.FindStringSubmatch(rest); m != nil {
			if m[1] == "B1" || m[1] == "B2" || m[1] == "B3" || m[1] == "SEQ" {
				cl.Mode = m[1]
			} else {
				cl.Label = m[1]
			}
			rest = rest[len(m[0]):]
			continue
		}
		break
	}
	cl.Text = rest
	return cl, nil
}

func (c *Clause) expr() (*CExpr, error) {
	if c.Expr == nil {
		e, err := parseCExpr(c.Text)
		if err != nil {
			return nil, fmt.Errorf("%s:%d: %v", c.File, c.Line, err)
		}
		c.Expr = e
	}
	return c.Expr, nil
}

func (fc *FuncContract) clauses(kw string) []*Clause {
	var out []*Clause
	for _, c := range fc.Clauses {
		if c.Kw == kw {
			out = append(out, c)
		}
	}
	return out
}
