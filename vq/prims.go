package main

import (
	"fmt"
	"go/types"
	"regexp"
	"strings"

	"golang.org/x/tools/go/ssa"
)

// primName: canonical name of a std function, e.g. "(*sync.RWMutex).Lock", "time.Now".
func primName(f *ssa.Function) string {
	if o := f.Origin(); o != nil {
		f = o
	}
	return f.String()
}

var primSet = map[string]bool{
	"(*sync.RWMutex).Lock": true, "(*sync.RWMutex).Unlock": true, "(*sync.RWMutex).RLock": true, "(*sync.RWMutex).RUnlock": true,
	"(*sync.Mutex).Lock": true, "(*sync.Mutex).Unlock": true,
	"(*sync/atomic.Uint32).Load": true, "(*sync/atomic.Uint32).Store": true, "(*sync/atomic.Uint32).Add": true, "(*sync/atomic.Uint32).CompareAndSwap": true,
	"(*sync/atomic.Uint64).Load": true, "(*sync/atomic.Uint64).Store": true, "(*sync/atomic.Uint64).Add": true,
	"(*sync/atomic.Bool).Load": true, "(*sync/atomic.Bool).Store": true,
	"(*sync/atomic.Value).Load": true, "(*sync/atomic.Value).Store": true,
	"(*sync.WaitGroup).Add": true, "(*sync.WaitGroup).Done": true, "(*sync.WaitGroup).Wait": true,
	"(*sync.Cond).Wait": true, "(*sync.Cond).Broadcast": true, "(*sync.Cond).Signal": true, "sync.NewCond": true,
	"(*sync.Pool).Get": true, "(*sync.Pool).Put": true,
	"time.Now": true, "time.NewTicker": true, "(*time.Ticker).Stop": true, "(time.Time).Add": true, "(time.Time).Before": true, "(time.Time).IsZero": true,
	"context.WithCancel": true, "context.Background": true, "runtime.NumCPU": true,
	"fmt.Errorf": true, "fmt.Sprintf": true, "errors.New": true, "errors.Is": true,
	"fmt.Println": true, "fmt.Printf": true, "fmt.Print": true, "log.Println": true, "log.Printf": true, "log.Print": true,
	"reflect.ValueOf": true, "(reflect.Value).Pointer": true,
	"encoding/json.Marshal": true, "encoding/json.Unmarshal": true,
}

func init() {
	for _, t := range []string{"Int32", "Int64", "Uint32", "Uint64", "Bool"} {
		for _, op := range []string{"Load", "Store", "Add", "CompareAndSwap", "Swap"} {
			if t == "Bool" && op == "Add" {
				continue
			}
			primSet["(*sync/atomic."+t+")."+op] = true
		}
	}
	for _, n := range []string{"time.Since", "time.Until", "time.Sleep", "(time.Duration).Seconds", "(time.Duration).Milliseconds", "(time.Duration).String",
		"strings.HasPrefix", "strings.HasSuffix", "strings.Contains", "strings.TrimSpace", "strings.ToLower", "strings.ToUpper", "strconv.Itoa", "fmt.Sprint", "fmt.Sprintln", "errors.Unwrap"} {
		primSet[n] = true
	}
}

// atomicOp: (type, operation) of a sync/atomic method on the integer and boolean atomic types, "" otherwise.
func atomicOp(n string) (string, string) {
	const pre = "(*sync/atomic."
	if !strings.HasPrefix(n, pre) {
		return "", ""
	}
	rest := n[len(pre):]
	i := strings.Index(rest, ").")
	if i < 0 {
		return "", ""
	}
	t, op := rest[:i], rest[i+2:]
	switch t {
	case "Int32", "Int64", "Uint32", "Uint64", "Bool":
		return t, op
	}
	return "", ""
}

// atomicWrap: x reduced to the value range of the atomic integer type t.
func atomicWrap(x Term, t string) Term {
	switch t {
	case "Uint32":
		return Term{fmt.Sprintf("(mod %s 4294967296)", x.S), SInt}
	case "Uint64":
		return Term{fmt.Sprintf("(mod %s 18446744073709551616)", x.S), SInt}
	case "Int32":
		return Term{fmt.Sprintf("(- (mod (+ %s 2147483648) 4294967296) 2147483648)", x.S), SInt}
	case "Int64":
		return Term{fmt.Sprintf("(- (mod (+ %s 9223372036854775808) 18446744073709551616) 9223372036854775808)", x.S), SInt}
	}
	return x
}

func isPrimitive(f *ssa.Function) bool { return primSet[primName(f)] }

func (vc *VC) primitiveMod(f *ssa.Function, c *ssa.CallCommon, li *loopInfo) {
	n := primName(f)
	switch {
	case strings.Contains(n, "atomic") && (strings.HasSuffix(n, ".Store") || strings.HasSuffix(n, ".Add") || strings.HasSuffix(n, ".CompareAndSwap") || strings.HasSuffix(n, ".Swap")):
		vc.addrMod(c.Args[0], nil, li)
	case strings.HasPrefix(n, "(*sync.WaitGroup)"):
		vc.addrMod(c.Args[0], nil, li)
		li.mod["G:$wgdone"] = true
	case n == "(*sync.Cond).Broadcast":
		li.mod["G:$broadcasts"] = true
	case n == "(*sync.Cond).Signal":
		li.mod["G:$condsignals"] = true
	case n == "(*sync.Cond).Wait":
		// other goroutines run while waiting: they may change what this function's contract lists in modifies
		if vc.fc == nil || len(vc.fc.clauses("modifies")) == 0 {
			li.modAll = true
			return
		}
		for _, cl := range vc.fc.clauses("modifies") {
			if cl.Mode != "" && cl.Mode != vc.mode {
				continue
			}
			for _, tgt := range splitTargets(cl.Text) {
				keys, ok := vc.staticTargetKeys(tgt, vc.fn, nil)
				if !ok {
					li.modAll = true
					return
				}
				for _, k := range keys {
					li.mod[k] = true
				}
			}
		}
	case n == "(*sync.Pool).Get", n == "time.NewTicker", n == "context.WithCancel", n == "fmt.Errorf", n == "errors.New":
		li.mod[allocKey] = true
	case n == "(*time.Ticker).Stop":
		li.mod["G:$tickerStopped"] = true
	case n == "encoding/json.Unmarshal":
		vc.addrMod(c.Args[1], nil, li)
	}
}

// primitive applies a built-in contract of a std function.
func (st *State) primitive(f *ssa.Function, args []Val, site ssa.Instruction) (Val, bool) {
	n := primName(f)
	if !primSet[n] {
		return nil, false
	}
	vc := st.vc
	vc.prims[n] = true
	it := types.Typ[types.Int]
	recvPtr := func() PtrV {
		switch a := args[0].(type) {
		case PtrV:
			return a
		case TV:
			return st.asPtr(a, f.Params[0].Type())
		}
		fail("primitive receiver %T", args[0])
		return PtrV{}
	}
	if at, op := atomicOp(n); at != "" {
		p := recvPtr()
		resT := func() types.Type { return f.Signature.Results().At(0).Type() }
		switch op {
		case "Load":
			st.guardCheck(p, false, site, false)
			tv := st.load(p, false).(TV)
			tv.Typ = resT()
			if vc.mode == "B2" {
				st.nonnil["b2loaded:"+lockKeyOf(p)] = true
			}
			if vc.mode == "B2" && st.nonnil["b2added:"+lockKeyOf(p)] && at != "Bool" && at != "Value" {
				// B2-lite: a counter this path has just changed with an atomic Add is one that other goroutines change the same way;
				// a Load after the Add no longer tells what this path's own Add did: it returns the known value or an arbitrary other one
				interf := st.declare("load.interf", SBool)
				other := st.declare("load.other", SInt)
				st.assumeRange(other, resT())
				tv.T = st.define("load.cur", tIte(interf, other, tv.T))
			}
			vc.runGhostLoad(st, p)
			return tv, true
		case "Store":
			st.store(p, TV{st.termOf(args[1]), p.Elem})
			vc.runGhostStore(st, p)
			return TupleV{}, true
		case "Swap":
			old := st.load(p, false).(TV)
			old.Typ = resT()
			st.store(p, TV{st.termOf(args[1]), p.Elem})
			vc.runGhostStore(st, p)
			return old, true
		case "Add":
			cur := st.load(p, false).(TV).T
			if vc.mode == "B2" && st.nonnil["b2loaded:"+lockKeyOf(p)] && !st.nonnil["fresh:"+p.Base.S] {
				// B2-lite: between an earlier Load of this path and this Add other goroutines may have changed the counter: the value the
				// Add meets (and so the value it returns) is the known one or an arbitrary other one -- a snapshot taken before is stale
				interf := st.declare("add.interf", SBool)
				other := st.declare("add.other", SInt)
				st.assumeRange(other, resT())
				cur = st.define("add.cur", tIte(interf, other, cur))
			}
			nv := st.define("aadd", atomicWrap(tAdd(cur, args[1].(TV).T), at))
			st.nonnil["rg:"+nv.S] = true
			st.assumeRange(nv, resT())
			st.store(p, TV{nv, p.Elem})
			st.nonnil["b2added:"+lockKeyOf(p)] = true
			vc.runGhostStore(st, p)
			return TV{nv, resT()}, true
		case "CompareAndSwap":
			cur := st.load(p, false).(TV).T
			if vc.mode == "B2" && !st.nonnil["fresh:"+p.Base.S] && at != "Bool" {
				// B2-lite: between the earlier Load that produced the expected value and this compare-and-swap another goroutine may
				// have changed the variable: the value the CAS meets is either the one this path knows or an arbitrary other one
				interf := st.declare("cas.interf", SBool)
				other := st.declare("cas.other", SInt)
				st.assumeRange(other, f.Params[1].Type())
				cur = st.define("cas.cur", tIte(interf, other, cur))
			}
			ok := tEq(cur, args[1].(TV).T)
			nv := st.define("cas", tIte(ok, args[2].(TV).T, cur))
			st.store(p, TV{nv, p.Elem})
			vc.runGhostStore(st, p)
			return TV{ok, types.Typ[types.Bool]}, true
		}
	}
	switch n {
	case "time.Since", "time.Until", "(time.Duration).Milliseconds", "strconv.Itoa", "strings.HasPrefix", "strings.HasSuffix", "strings.Contains",
		"strings.TrimSpace", "strings.ToLower", "strings.ToUpper", "fmt.Sprint", "fmt.Sprintln", "(time.Duration).String", "(time.Duration).Seconds", "errors.Unwrap":
		// side-effect free library functions: the result is left unconstrained (nothing the contracts say depends on it)
		return st.freshVal("pure", f.Signature.Results().At(0).Type()), true
	case "time.Sleep":
		return TupleV{}, true
	case "(*sync.RWMutex).Lock", "(*sync.Mutex).Lock":
		k := lockKeyOf(recvPtr())
		if vc.mode == "B1" && st.held[k] != "" {
			st.oblige("guard", fmt.Sprintf("relock@%s#%d", "Lock", vc.ordinals[site]), tFalse, "lock acquired twice: "+k)
		}
		st.held[k] = "w"
		return TupleV{}, true
	case "(*sync.RWMutex).RLock":
		k := lockKeyOf(recvPtr())
		if vc.mode == "B1" && st.held[k] != "" {
			st.oblige("guard", fmt.Sprintf("relock@%s#%d", "RLock", vc.ordinals[site]), tFalse, "lock acquired twice: "+k)
		}
		st.held[k] = "r"
		return TupleV{}, true
	case "(*sync.RWMutex).Unlock", "(*sync.Mutex).Unlock":
		k := lockKeyOf(recvPtr())
		if vc.mode == "B1" && st.held[k] != "w" {
			st.oblige("guard", fmt.Sprintf("unlock-unheld#%d", vc.ordinals[site]), tFalse, "Unlock of a lock not held in write mode: "+k)
		}
		delete(st.held, k)
		return TupleV{}, true
	case "(*sync.RWMutex).RUnlock":
		k := lockKeyOf(recvPtr())
		if vc.mode == "B1" && st.held[k] != "r" {
			st.oblige("guard", fmt.Sprintf("runlock-unheld#%d", vc.ordinals[site]), tFalse, "RUnlock of a lock not held in read mode: "+k)
		}
		delete(st.held, k)
		return TupleV{}, true
	case "(*sync/atomic.Uint32).Load", "(*sync/atomic.Uint64).Load", "(*sync/atomic.Bool).Load", "(*sync/atomic.Value).Load":
		p := recvPtr()
		st.guardCheck(p, false, site, false)
		v := st.load(p, false)
		tv := v.(TV)
		tv.Typ = f.Signature.Results().At(0).Type()
		vc.runGhostLoad(st, p)
		return tv, true
	case "(*sync/atomic.Uint32).Store", "(*sync/atomic.Uint64).Store", "(*sync/atomic.Bool).Store", "(*sync/atomic.Value).Store":
		p := recvPtr()
		st.store(p, TV{st.termOf(args[1]), p.Elem})
		vc.runGhostStore(st, p)
		return TupleV{}, true
	case "(*sync/atomic.Uint32).Add", "(*sync/atomic.Uint64).Add":
		p := recvPtr()
		cur := st.load(p, false).(TV).T
		mod := "4294967296"
		if strings.Contains(n, "Uint64") {
			mod = "18446744073709551616"
		}
		nv := st.define("aadd", Term{fmt.Sprintf("(mod (+ %s %s) %s)", cur.S, args[1].(TV).T.S, mod), SInt})
		st.nonnil["rg:"+nv.S] = true
		st.assume(Term{fmt.Sprintf("(and (<= 0 %s) (< %s %s))", nv.S, nv.S, mod), SBool})
		st.store(p, TV{nv, p.Elem})
		vc.runGhostStore(st, p)
		return TV{nv, f.Signature.Results().At(0).Type()}, true
	case "(*sync/atomic.Uint32).CompareAndSwap":
		p := recvPtr()
		cur := st.load(p, false).(TV).T
		if vc.mode == "B2" && !st.nonnil["fresh:"+p.Base.S] {
			// B2-lite: between the earlier Load that produced the expected value and this compare-and-swap another goroutine may
			// have changed the variable: the value the CAS meets is either the one this path knows or an arbitrary other one
			interf := st.declare("cas.interf", SBool)
			other := st.declare("cas.other", SInt)
			st.assumeRange(other, types.Typ[types.Uint32])
			cur = st.define("cas.cur", tIte(interf, other, cur))
		}
		ok := tEq(cur, args[1].(TV).T)
		nv := st.define("cas", tIte(ok, args[2].(TV).T, cur))
		st.store(p, TV{nv, p.Elem})
		vc.runGhostStore(st, p)
		return TV{ok, types.Typ[types.Bool]}, true
	case "(*sync.WaitGroup).Add":
		p := recvPtr()
		cur := st.load(p, false).(TV).T
		nv := st.define("wg", tAdd(cur, args[1].(TV).T))
		st.oblige("wg", fmt.Sprintf("nonneg@Add#%d", vc.ordinals[site]), tGe(nv, tInt(0)), "WaitGroup counter stays non-negative")
		st.store(p, TV{nv, p.Elem})
		return TupleV{}, true
	case "(*sync.WaitGroup).Done":
		p := recvPtr()
		cur := st.load(p, false).(TV).T
		nv := st.define("wg", tSub(cur, tInt(1)))
		st.oblige("wg", fmt.Sprintf("nonneg@Done#%d", vc.ordinals[site]), tGe(nv, tInt(0)), "WaitGroup counter stays non-negative")
		st.store(p, TV{nv, p.Elem})
		st.ghostCount("wgdone", tInt(0))
		return TupleV{}, true
	case "(*sync.WaitGroup).Wait":
		p := recvPtr()
		// returns when the counter is zero; other goroutines' effects on the counter: the counter is zero afterwards
		st.store(p, TV{tInt(0), p.Elem})
		return TupleV{}, true
	case "fmt.Println", "fmt.Printf", "fmt.Print", "log.Println", "log.Printf", "log.Print":
		// diagnostics: output only, no effect on the state the contracts talk about
		if strings.HasPrefix(n, "fmt.") {
			return TupleV{[]Val{TV{st.declare("nwritten", SInt), it}, TV{st.declare("werr", SInt), f.Signature.Results().At(1).Type()}}}, true
		}
		return TupleV{}, true
	case "errors.Is":
		// errors.Is(err, target): true when err == target, false for a nil err and a non-nil target; for anything else (wrapped
		// errors, Is methods) the answer is left open
		e, tg := st.termOf(args[0]), st.termOf(args[1])
		r := st.declare("errorsIs", SBool)
		st.assume(tImp(tEq(e, tg), r))
		st.assume(tImp(tAnd(tEq(e, tInt(0)), tNot(tEq(tg, tInt(0)))), tNot(r)))
		return TV{r, types.Typ[types.Bool]}, true
	case "sync.NewCond":
		r := st.allocRef("cond")
		return TV{r, f.Signature.Results().At(0).Type()}, true
	case "(*sync.Cond).Broadcast", "(*sync.Cond).Signal":
		// Broadcast wakes every waiter, Signal at most one: they are different events ($broadcasts[c] / $condsignals[c])
		c := st.termOf(args[0])
		st.nilCheck(c, fmt.Sprintf("cond-nil#%d", vc.ordinals[site]), "sync.Cond receiver")
		if n == "(*sync.Cond).Signal" {
			st.ghostCount("condsignals", c)
		} else {
			st.ghostCount("broadcasts", c)
		}
		return TupleV{}, true
	case "(*sync.Cond).Wait":
		// releases the lock, other goroutines run: what they may change is what this function's contract lists in `modifies`;
		// what they keep is stated by its `rely` clauses (assumptions about the environment, reported as such)
		if vc.fc != nil && len(vc.fc.clauses("modifies")) > 0 {
			ec := st.evalCtx()
			ec.names = st.topNames()
			var tgts []string
			for _, c := range vc.fc.clauses("modifies") {
				if c.Mode != "" && c.Mode != vc.mode {
					continue
				}
				tgts = append(tgts, splitTargets(c.Text)...)
			}
			ec.havocTargets(tgts)
			for _, c := range vc.fc.clauses("rely") {
				e, err := c.expr()
				if err != nil {
					fail("%v", err)
				}
				ec2 := st.evalCtx()
				ec2.names = st.topNames()
				st.assume(ec2.evalBool(e))
				vc.assumptionsUsed["rely of "+vc.key+" while parked in Cond.Wait: "+c.Text] = true
			}
		} else {
			for k := range vc.keySort {
				if k != allocKey && !strings.HasPrefix(k, "CH:cap") {
					st.havocKey(k)
				}
			}
			vc.assumptionsUsed["sync.Cond.Wait: arbitrary interference while parked (all heap state havocked)"] = true
		}
		return TupleV{}, true
	case "(*sync.Pool).Get":
		r := st.declare("poolget", SInt)
		st.assume(tGe(r, tInt(0)))
		st.poolInvariant(recvPtr(), TV{r, types.NewInterfaceType(nil, nil)}, false, site)
		// Get returns a value previously Put, or New(): an interface value
		vc.assumptionsUsed["sync.Pool.Get returns New() or a value previously passed to Put"] = true
		return TV{r, f.Signature.Results().At(0).Type()}, true
	case "(*sync.Pool).Put":
		st.poolInvariant(recvPtr(), args[1], true, site)
		st.ghostCountKey("G:$poolputs")
		return TupleV{}, true
	case "time.Now":
		c := st.declare("now", SInt)
		return TV{c, f.Signature.Results().At(0).Type()}, true
	case "(time.Time).Add":
		c := st.declare("tadd", SInt)
		return TV{c, f.Signature.Results().At(0).Type()}, true
	case "(time.Time).Before":
		c := st.declare("tbefore", SBool)
		return TV{c, types.Typ[types.Bool]}, true
	case "(time.Time).IsZero":
		return TV{tEq(args[0].(TV).T, tInt(0)), types.Typ[types.Bool]}, true
	case "time.NewTicker":
		d := args[0].(TV).T
		st.oblige("pre", fmt.Sprintf("positive-interval@time.NewTicker#%d", vc.ordinals[site]), tGt(d, tInt(0)), "time.NewTicker panics on a non-positive interval")
		r := st.allocRef("ticker")
		// the ticker's channel C
		ch := st.allocRef("tickC")
		st.curChanElem = types.Typ[types.Int] // the ticker's channel carries time.Time values (modelled as Int)
		st.chanInit(ch, tInt(1))
		p := PtrV{Kind: "obj", Root: "time.Ticker", Base: r, Path: "C", Elem: types.NewChan(types.RecvOnly, types.Typ[types.Int])}
		st.writeLeaf(PtrV{Kind: "obj", Root: "time.Ticker", Base: r}, leaf{"C", nil, SInt}, ch)
		_ = p
		st.ghostCountKey("G:$tickersLive")
		return TV{r, f.Signature.Results().At(0).Type()}, true
	case "(*time.Ticker).Stop":
		st.ghostCount("tickerStopped", st.termOf(args[0]))
		return TupleV{}, true
	case "context.WithCancel":
		parent := st.termOf(args[0])
		st.nilCheck(parent, fmt.Sprintf("ctx-parent-nil#%d", vc.ordinals[site]), "context.WithCancel parent (panics on nil)")
		ctx := st.declare("ctx", SInt)
		st.assume(tNot(tEq(ctx, tInt(0))))
		cancel := st.declare("cancel", SInt)
		st.assume(tNot(tEq(cancel, tInt(0))))
		vc.strLits["fun.cancelOf"] = "(Int) Int"
		vc.strLits["fun.parentOf"] = "(Int) Int"
		st.assume(tEq(app("cancelOf", SInt, ctx), cancel))
		st.assume(tEq(app("parentOf", SInt, ctx), parent))
		res := f.Signature.Results()
		return TupleV{[]Val{TV{ctx, res.At(0).Type()}, TV{cancel, res.At(1).Type()}}}, true
	case "context.Background":
		vc.strLits["glob.context.Background"] = "tid"
		return TV{Term{smtIdent("glob.context.Background"), SInt}, f.Signature.Results().At(0).Type()}, true
	case "runtime.NumCPU":
		c := st.declare("ncpu", SInt)
		st.assume(tAnd(tGe(c, tInt(1)), tLe(c, tInt(1<<20))))
		return TV{c, it}, true
	case "fmt.Errorf", "errors.New":
		r := st.allocRef("err")
		vc.modules["iface"] = true
		// %w wrapping: record the wrapped errors (arguments of error type)
		if n == "fmt.Errorf" && len(args) > 1 {
			if sv, ok := args[1].(SliceV); ok {
				vc.strLits["fun.wraps"] = "(Int Int) Bool"
				_ = sv
			}
		}
		return TV{r, f.Signature.Results().At(0).Type()}, true
	case "fmt.Sprintf":
		vc.strLits["fun.sprintf"] = "(Str Int) Str"
		// result is a function of the format and the variadic backing array contents: opaque but deterministic in (format, args array ref)
		var argid Term = tInt(0)
		if sv, ok := args[1].(SliceV); ok {
			argid = sv.Arr
		}
		return TV{app("sprintf", SStr, args[0].(TV).T, argid), types.Typ[types.String]}, true
	case "reflect.ValueOf":
		return StructV{Typ: f.Signature.Results().At(0).Type(), F: []Val{args[0]}}, true
	case "(reflect.Value).Pointer":
		vc.modules["iface"] = true
		sv := args[0].(StructV)
		iv := sv.F[0].(TV).T
		vc.strLits["fun.identityOf"] = "(Int) Int"
		c := st.define("rptr", app("identityOf", SInt, iv))
		st.assumeRange(c, types.Typ[types.Uintptr])
		return TV{c, types.Typ[types.Uintptr]}, true
	case "encoding/json.Marshal":
		// Marshal(v): either an error, or a byte slice b from which every scalar field of v can be decoded again:
		//   dec.<Struct>.<field>(b) == field value   (payloads of type-parameter sort: == jsonrt(value), the JSON round trip)
		vc.assumptionsUsed["encoding/json: Unmarshal(Marshal(v)) yields v field by field (payload: its JSON round trip jsonrt); Marshal fails or succeeds as a function of v"] = true
		iv := st.termOf(args[0])
		arr := st.allocRef("json")
		ln := st.declare("jsonlen", SInt)
		st.assume(tGe(ln, tInt(0)))
		vc.strLits["fun.jsonOk"] = "(Int) Bool"
		ok := st.define("jsonok", app("jsonOk", SBool, iv))
		errv := st.declare("jsonerr", SInt)
		st.assume(tEq(tEq(errv, tInt(0)), ok))
		if di, has := st.dyn[iv.S]; has {
			if sv, isS := di.val.(StructV); isS {
				st.jsonFields(arr, sv, di.typ, "", ok)
			}
		}
		res := f.Signature.Results()
		sl := SliceV{tIte(ok, arr, tInt(0)), tInt(0), tIte(ok, ln, tInt(0)), tIte(ok, ln, tInt(0)), res.At(0).Type()}
		return TupleV{[]Val{sl, TV{errv, res.At(1).Type()}}}, true
	case "encoding/json.Unmarshal":
		errv := st.declare("unmerr", SInt)
		data, _ := args[0].(SliceV)
		decoded := false
		if tv, ok := args[1].(TV); ok {
			if di, has := st.dyn[tv.T.S]; has {
				decoded = true
				if el := derefType(di.typ); el != nil && classify(el) == kStruct {
					p := st.asPtr(di.val, di.typ)
					// json.Unmarshal MERGES into its target (absent keys keep the old field values, maps are merged, slices reuse their
					// backing array): the decode contract below describes the result only for a target that is still zero, which is
					// established here syntactically: the target object was allocated by this very function activation
					st.oblige("assert", fmt.Sprintf("json-target-fresh#%d", vc.ordinals[site]), tBool(st.nonnil["fresh:"+p.Base.S]),
						"json.Unmarshal target is a zero value allocated by this function (Unmarshal merges into whatever the target already holds)")
					st.jsonDecodeInto(p, el, "", data.Arr, tEq(errv, tInt(0)))
				}
			}
		}
		if !decoded {
			fail("json.Unmarshal into a target whose type the executor does not know (the decode contract cannot be applied): %s", fmtVal(args[1]))
		}
		return TV{errv, f.Signature.Results().At(0).Type()}, true
	}
	fail("primitive %s not implemented", n)
	return nil, false
}

func (st *State) ghostCountKey(k string) {
	st.vc.setKeySort(k, SInt)
	st.set(k, tAdd(st.get(k), tInt(1)))
}

func lockKeyOf(p PtrV) string {
	return p.Root + "#" + p.Base.S + "#" + p.Path
}

// ---------- B1: guarded-by checks ----------

type guardRule struct {
	root  string // struct root name
	field string // field path prefix
	lock  string // lock field path (in the same root) or "caller"
}

var guardedRe = regexp.MustCompile(`^\s*((?:any\s+)?[A-Za-z0-9_.]+)\s*:\s*(.*)$`)

func (vc *VC) guardRules() []guardRule {
	var out []guardRule
	for _, td := range vc.cs.Types {
		for _, c := range td.Clauses {
			if c.Kw == "frozen" {
				// fields written only while the object is still private to its constructor
				for _, f := range strings.Split(c.Text, ",") {
					if f = strings.TrimSpace(f); f != "" {
						out = append(out, guardRule{root: td.Pkg + "." + td.Name, field: f, lock: "frozen"})
					}
				}
				continue
			}
			if c.Kw != "guarded_by" {
				continue
			}
			m := guardedRe.FindStringSubmatch(c.Text)
			if m == nil {
				continue
			}
			for _, f := range strings.Split(m[2], ",") {
				f = strings.TrimSpace(f)
				if f != "" {
					out = append(out, guardRule{root: td.Pkg + "." + td.Name, field: f, lock: m[1]})
				}
			}
		}
	}
	return out
}

var guardCache map[*Contracts][]guardRule

// guardCheck: in B1 mode, an access to a guarded field requires its lock.
func (st *State) guardCheck(p PtrV, write bool, site ssa.Instruction, addrOnly bool) {
	vc := st.vc
	if vc.mode != "B1" || p.Kind != "obj" || addrOnly {
		return
	}
	if guardCache == nil {
		guardCache = map[*Contracts][]guardRule{}
	}
	rules, ok := guardCache[vc.cs]
	if !ok {
		rules = vc.guardRules()
		guardCache[vc.cs] = rules
	}
	for _, r := range rules {
		if r.root != p.Root {
			continue
		}
		if !(p.Path == r.field || strings.HasPrefix(p.Path, r.field+".")) {
			continue
		}
		// objects allocated in this function and not yet published are exempt
		if st.nonnil["fresh:"+p.Base.S] {
			return
		}
		if r.lock == "caller" {
			return
		}
		okk := false
		if r.lock == "frozen" {
			if !write {
				return
			}
		} else if strings.HasPrefix(r.lock, "any ") {
			okk = st.heldAny(strings.TrimSpace(r.lock[4:]), write)
		} else {
			mode := st.held[p.Root+"#"+p.Base.S+"#"+r.lock]
			okk = mode == "w" || (!write && mode == "r")
		}
		acc := "read"
		if write {
			acc = "write"
		}
		if vc.guardHits == nil {
			vc.guardHits = map[string]bool{}
		}
		vc.guardHits[r.root+"."+r.field] = true
		st.oblige("guard", fmt.Sprintf("%s.%s@%s#%d", shortRoot(p.Root), p.Path, acc, vc.ordinals[site]), tBool(okk), fmt.Sprintf("%s of %s.%s requires %s", acc, p.Root, p.Path, r.lock))
		return
	}
}

// heldAny: some lock "<pkg.Type>.<field>" (of whatever object) is held; write access needs write mode.
func (st *State) heldAny(spec string, write bool) bool {
	i := strings.LastIndex(spec, ".")
	if i < 0 {
		return false
	}
	root, field := spec[:i], spec[i+1:]
	for k, mode := range st.held {
		a, b := strings.Index(k, "#"), strings.LastIndex(k, "#")
		if a < 0 || b <= a {
			continue
		}
		if k[:a] == root && k[b+1:] == field && (mode == "w" || !write) {
			return true
		}
	}
	return false
}

// holdsAtEntry: "holds any pkg.Type.field [r]" clauses of the function's own contract: the caller holds that lock.
func (vc *VC) holdsAtEntry(st *State) {
	if vc.fc == nil {
		return
	}
	for _, c := range vc.fc.clauses("holds") {
		fs := strings.Fields(c.Text)
		if len(fs) >= 2 && fs[0] == "any" {
			i := strings.LastIndex(fs[1], ".")
			mode := "w"
			if len(fs) >= 3 && fs[2] == "r" {
				mode = "r"
			}
			st.held[fs[1][:i]+"#*#"+fs[1][i+1:]] = mode
		}
	}
}

// holdsAtCall: the callee's contract says its caller holds a lock: obligation at the call site (B1).
func (st *State) holdsAtCall(fc *FuncContract, siteLabel string, args []Val) {
	if st.vc.mode != "B1" {
		return
	}
	if len(args) > 0 {
		// receiver allocated by this function and not yet shared: nobody else can reach it (constructors)
		switch a := args[0].(type) {
		case TV:
			if st.nonnil["fresh:"+a.T.S] {
				return
			}
		case PtrV:
			if st.nonnil["fresh:"+a.Base.S] {
				return
			}
		}
	}
	for _, c := range fc.clauses("holds") {
		fs := strings.Fields(c.Text)
		if len(fs) >= 2 && fs[0] == "any" {
			write := !(len(fs) >= 3 && fs[2] == "r")
			st.oblige("guard", "holds:"+fs[1]+"@"+siteLabel, tBool(st.heldAny(fs[1], write)), "call of "+fc.Key+" requires a held "+fs[1])
		}
	}
}

func shortRoot(r string) string {
	if i := strings.LastIndex(r, "."); i >= 0 {
		return r[i+1:]
	}
	return r
}

// ---------- ghost statements ----------

type ghostStmt struct {
	anchor string // entry | after call | before call | at go | at return | after store
	callee string
	ord    int // 0 = any
	lhs    string
	rhs    *CExpr
	when   *CExpr
	assert *CExpr
	choose []string
	assume *CExpr
	label  string
	clause *Clause
}

var ghostRe = regexp.MustCompile(`^(entry|at return|after call|before call|at go|after store|after load|after recv|at backedge)\s*((?:[^:#]|::)*?)(?:#(\d+))?\s*(?:when\s+(.*?))?:\s(.*)$`)

func (vc *VC) parseGhostStmts() {
	if vc.fc == nil {
		return
	}
	for _, c := range vc.fc.Clauses {
		if c.Kw != "ghost" && c.Kw != "assert" {
			continue
		}
		m := ghostRe.FindStringSubmatch(c.Text)
		if m == nil {
			fail("%s:%d: cannot parse ghost/assert anchor in %q", c.File, c.Line, c.Text)
		}
		g := &ghostStmt{anchor: m[1], callee: strings.TrimSpace(m[2]), label: c.Label, clause: c}
		if m[3] != "" {
			fmt.Sscanf(m[3], "%d", &g.ord)
		}
		if m[4] != "" {
			w, err := parseCExpr(m[4])
			if err != nil {
				fail("%s:%d: %v", c.File, c.Line, err)
			}
			g.when = w
		}
		body := strings.TrimSpace(m[5])
		if c.Kw == "ghost" && strings.HasPrefix(body, "assume ") {
			// an explicit, reported assumption (never a proof step): used for "machine arithmetic is large enough" facts
			e, err := parseCExpr(strings.TrimSpace(body[len("assume "):]))
			if err != nil {
				fail("%s:%d: %v", c.File, c.Line, err)
			}
			g.assume = e
			vc.ghostAnchors = append(vc.ghostAnchors, g)
			continue
		}
		if c.Kw == "ghost" && strings.HasPrefix(body, "choose ") {
			// choose <ghost lvalues> such that <definitional expr>
			i := strings.Index(body, " such that ")
			if i < 0 {
				fail("%s:%d: ghost choose needs 'such that'", c.File, c.Line)
			}
			g.choose = splitTargets(body[len("choose "):i])
			e, err := parseCExpr(strings.TrimSpace(body[i+len(" such that "):]))
			if err != nil {
				fail("%s:%d: %v", c.File, c.Line, err)
			}
			g.rhs = e
			vc.ghostAnchors = append(vc.ghostAnchors, g)
			continue
		}
		if c.Kw == "assert" {
			e, err := parseCExpr(body)
			if err != nil {
				fail("%s:%d: %v", c.File, c.Line, err)
			}
			g.assert = e
		} else {
			i := strings.Index(body, ":=")
			if i < 0 {
				fail("%s:%d: ghost statement needs ':='", c.File, c.Line)
			}
			g.lhs = strings.TrimSpace(body[:i])
			e, err := parseCExpr(strings.TrimSpace(body[i+2:]))
			if err != nil {
				fail("%s:%d: %v", c.File, c.Line, err)
			}
			g.rhs = e
		}
		vc.ghostAnchors = append(vc.ghostAnchors, g)
	}
}

func (vc *VC) runGhost(st *State, anchor, callee string, ord int, callRes ...Val) {
	if st.fr == nil {
		return
	}
	plain := callee
	inlined := st.fr.fn != vc.fn
	if inlined {
		// anchors inside an inlined callee are written "<callee key>::<anchor callee>"
		callee = funcKey(st.fr.fn) + "::" + callee
	}
	for _, g := range vc.ghostAnchors {
		if g.anchor != anchor {
			continue
		}
		viaRoot := false
		if g.callee != "" && !calleeMatches(g.callee, callee) {
			// an anchor written without a frame ("before call X") also binds to a call of X that an extract-method refactoring moved into an
			// inlined helper: it is then evaluated over the names of the function under contract (no call ordinal can be given in that case)
			if inlined && g.ord == 0 && !strings.Contains(g.callee, "::") && calleeMatches(g.callee, plain) {
				viaRoot = true
			} else {
				continue
			}
		}
		if g.ord != 0 && g.ord != ord {
			continue
		}
		if viaRoot {
			root := st.fr
			for root.parent != nil {
				root = root.parent
			}
			st.ghostFrame = root
			vc.execGhost(st, g, callRes...)
			st.ghostFrame = nil
			continue
		}
		vc.execGhost(st, g, callRes...)
	}
}

func calleeMatches(pat, name string) bool {
	if pat == name {
		return true
	}
	if strings.Contains(name, "::") != strings.Contains(pat, "::") {
		return false
	}
	if i := strings.Index(pat, "::"); i >= 0 {
		j := strings.Index(name, "::")
		return calleeMatches(pat[:i], name[:j]) && calleeMatches(pat[i+2:], name[j+2:])
	}
	// allow omitting the package prefix and matching by suffix
	return strings.HasSuffix(name, "."+pat)
}

// runGhostLoad: "after load <field>" anchors fire after an atomic Load of that field, also inside inlined getters (IsRunning ...).
func (vc *VC) runGhostLoad(st *State, p PtrV) {
	for _, g := range vc.ghostAnchors {
		if g.anchor != "after load" {
			continue
		}
		if g.callee == p.Path || strings.HasSuffix(p.Path, "."+g.callee) {
			vc.execGhost(st, g)
		}
	}
}

// runGhostRecv: "after recv" anchors fire after every channel receive of the function itself (range over a channel, <-ch, select case).
func (vc *VC) runGhostRecv(st *State) {
	if st.fr == nil || st.fr.fn != vc.fn {
		return
	}
	for _, g := range vc.ghostAnchors {
		if g.anchor == "after recv" {
			vc.execGhost(st, g)
		}
	}
}

func (vc *VC) runGhostStore(st *State, p PtrV) {
	if st.fr == nil || st.fr.fn != vc.fn {
		return
	}
	for _, g := range vc.ghostAnchors {
		if g.anchor != "after store" {
			continue
		}
		if g.callee == p.Path || strings.HasSuffix(p.Path, "."+g.callee) || g.callee == shortRoot(p.Root)+"."+p.Path {
			vc.execGhost(st, g)
		}
	}
}

func (vc *VC) execGhost(st *State, g *ghostStmt, callRes ...Val) {
	ec := st.evalCtx()
	names := copyNames(ec.names)
	// "before call" anchors may name the call's actual arguments: arg0 (the receiver of a method call), arg1, ...
	for i, a := range st.callArgs {
		names[fmt.Sprintf("arg%d", i)] = a
	}
	if len(callRes) == 1 {
		names["result"] = callRes[0]
		names["result0"] = callRes[0]
		if tv, ok := callRes[0].(TupleV); ok {
			for i, e := range tv.E {
				if i == 0 {
					names["result"] = e
				}
				names[fmt.Sprintf("result%d", i)] = e
			}
		}
	}
	// "result" of the call just made, when anchored after a call
	ec.names = names
	cond := tTrue
	if g.when != nil {
		cond = ec.evalBool(g.when)
	}
	if g.assume != nil {
		ec2 := st.evalCtx()
		ec2.names = names
		st.assume(tImp(cond, ec2.evalBool(g.assume)))
		vc.assumptionsUsed["assumed in "+vc.key+" ("+g.anchor+" "+g.callee+"): "+g.assume.String()] = true
		return
	}
	if g.choose != nil {
		// ghost choice: the chosen ghost locations get fresh values constrained by a definitional condition
		before := map[string]Term{}
		for k, v := range st.heap {
			before[k] = v
		}
		for _, tgt := range g.choose {
			ec.havocTarget(tgt)
		}
		ec2 := st.evalCtx()
		ec2.names = names
		st.assume(tImp(cond, ec2.evalBool(g.rhs)))
		if cond.S != "true" {
			for k, v := range st.heap {
				if b, ok := before[k]; ok && b.S != v.S {
					st.assume(tImp(tNot(cond), tEq(v, b)))
				}
			}
		}
		vc.assumptionsUsed["ghost choice ("+vc.key+"): "+g.rhs.String()] = true
		return
	}
	if g.assert != nil {
		lbl := g.label
		if lbl == "" {
			lbl = fmt.Sprintf("assert@%s", g.anchor)
		}
		st.oblige("assert", lbl, tImp(cond, ec.evalBool(g.assert)), g.assert.String())
		st.assume(tImp(cond, ec.evalBool(g.assert)))
		return
	}
	// assignment to a ghost location
	lhs, err := parseCExpr(g.lhs)
	if err != nil {
		fail("ghost lhs %q: %v", g.lhs, err)
	}
	val := ec.evalTerm(g.rhs)
	switch lhs.Kind {
	case "ghost": // global ghost scalar/map, or a ghost local of this function
		if _, decl := vc.cs.Ghosts[lhs.Name]; !decl {
			if _, builtin := builtinGhostSort(lhs.Name); !builtin {
				cur, has := st.ghostLocals["$"+lhs.Name]
				nv := val
				if has && cond.S != "true" {
					nv = tIte(cond, val, cur.(TV).T)
				}
				st.ghostLocals["$"+lhs.Name] = TV{st.define("gl."+lhs.Name, nv), nil}
				return
			}
		}
		ec.ghostGlobal(lhs.Name)
		key := "G:$" + lhs.Name
		st.set(key, tIte(cond, val, st.get(key)))
	case "index":
		base := lhs.Args[0]
		idx := ec.evalTerm(lhs.Args[1])
		switch base.Kind {
		case "ghost":
			ec.ghostGlobal(base.Name)
			key := "G:$" + base.Name
			arr := st.get(key)
			st.set(key, tIte(cond, tStore(arr, idx, val), arr))
		case "sel":
			if !strings.HasPrefix(base.Name, "$") {
				fail("ghost assignment to non-ghost %s", g.lhs)
			}
			x := ec.eval(base.Args[0])
			ec.ghostField(x, base.Name[1:])
			p, _ := ec.ptrOf(x)
			key := objKey(p.Root, joinPath(p.Path, base.Name))
			arr := st.get(key)
			inner := tSelect(arr, p.Base)
			st.set(key, tIte(cond, tStore(arr, p.Base, tStore(inner, idx, val)), arr))
		default:
			fail("ghost assignment target %s", g.lhs)
		}
	case "sel":
		if !strings.HasPrefix(lhs.Name, "$") {
			fail("ghost assignment to non-ghost %s", g.lhs)
		}
		x := ec.eval(lhs.Args[0])
		ec.ghostField(x, lhs.Name[1:])
		p, _ := ec.ptrOf(x)
		key := objKey(p.Root, joinPath(p.Path, lhs.Name))
		arr := st.get(key)
		st.set(key, tIte(cond, tStore(arr, p.Base, val), arr))
	case "call":
		if gd := vc.cs.Ghosts[strings.TrimPrefix(lhs.Name, "$")]; gd != nil && strings.HasPrefix(lhs.Name, "$") && strings.HasPrefix(gd.Sort, "fun ") {
			x := ec.evalTerm(lhs.Args[0])
			key, arr := ec.ghostFunArr(lhs.Name[1:], x.Sort)
			st.set(key, tIte(cond, tStore(arr, x, val), arr))
		} else {
			fail("ghost assignment target %s", g.lhs)
		}
	case "ident":
		st.ghostLocals[lhs.Name] = TV{st.define("gl."+lhs.Name, val), nil}
	default:
		fail("ghost assignment target %s", g.lhs)
	}
}

// noteGlobal: globals initialised once in package init are treated as constants with the facts declared in "global" frames.
func (vc *VC) noteGlobal(st *State, name string, o *types.Var, v Val) {}

// poolInvariant: "type T: pool <field> holds <Pred>" -- every value put into the sync.Pool satisfies Pred (obligation at Put), hence every
// value obtained from it does (assumption at Get; New() must establish it, which is the contract of the New closure).
func (st *State) poolInvariant(p PtrV, v Val, isPut bool, site ssa.Instruction) {
	vc := st.vc
	td := vc.cs.Types[p.Root]
	if td == nil {
		return
	}
	for _, c := range td.Clauses {
		if c.Kw != "pool" {
			continue
		}
		fs := strings.Fields(c.Text) // <field> holds <Pred>
		if len(fs) != 3 || fs[1] != "holds" || fs[0] != p.Path {
			continue
		}
		e := &CExpr{Kind: "call", Name: fs[2], Args: []*CExpr{{Kind: "ident", Name: "$poolv"}}}
		ec := st.evalCtx()
		ec.names = copyNames(ec.names)
		ec.names["$poolv"] = v
		if pk := vc.pkgByShort(td.Pkg); pk != nil {
			ec.pkg = pk
		}
		// the type parameters of the declaring type, as instantiated at this site
		if call, ok := site.(ssa.CallInstruction); ok && len(call.Common().Args) > 0 {
			if fa, ok := call.Common().Args[0].(*ssa.FieldAddr); ok {
				if n, ok := types.Unalias(derefType(fa.X.Type())).(*types.Named); ok && n.TypeArgs() != nil {
					env := map[string]types.Type{}
					for i := 0; i < n.TypeArgs().Len() && i < n.Origin().TypeParams().Len(); i++ {
						env[n.Origin().TypeParams().At(i).Obj().Name()] = n.TypeArgs().At(i)
					}
					ec.tparams = env
				}
			}
		}
		t := ec.evalBool(e)
		if isPut {
			st.oblige("pool", fmt.Sprintf("%s@Put#%d", fs[2], vc.ordinals[site]), t, "value put into "+p.Root+"."+p.Path+" satisfies "+fs[2])
		} else {
			st.assume(t)
			vc.usedContracts["pool invariant "+p.Root+"."+p.Path+": "+fs[2]] = true
		}
	}
}

func jsonFun(structName, path, sort string) string {
	return "dec." + structName + "." + path + "<" + sort + ">"
}

// jsonFields: record what can be decoded from the Marshal output arr.
func (st *State) jsonFields(arr Term, sv StructV, t types.Type, prefix string, ok Term) {
	vc := st.vc
	s := resolveTP(t).Underlying().(*types.Struct)
	name := rootName(t)
	for i := 0; i < s.NumFields() && i < len(sv.F); i++ {
		f := s.Field(i)
		path := joinPath(prefix, f.Name())
		switch fv := sv.F[i].(type) {
		case TV:
			fn := jsonFun(name, path, fv.T.Sort)
			vc.strLits["fun."+fn] = "(Int) " + fv.T.Sort
			val := fv.T
			if strings.HasPrefix(fv.T.Sort, "TP_") {
				rt := "jsonrt<" + fv.T.Sort + ">"
				vc.strLits["fun."+rt] = "(" + fv.T.Sort + ") " + fv.T.Sort
				val = app(smtIdent(rt), fv.T.Sort, fv.T)
			}
			st.assume(tImp(ok, tEq(app(smtIdent(fn), fv.T.Sort, arr), val)))
		case StructV:
			st.jsonFields(arr, fv, f.Type(), path, ok)
		}
	}
}

// jsonDecodeInto: on success the target's scalar fields are the decoded ones; on failure the target is unconstrained.
func (st *State) jsonDecodeInto(p PtrV, t types.Type, prefix string, arr Term, ok Term) {
	vc := st.vc
	s := resolveTP(t).Underlying().(*types.Struct)
	name := rootName(t)
	for i := 0; i < s.NumFields(); i++ {
		f := s.Field(i)
		path := joinPath(prefix, f.Name())
		np, _ := fieldPtr(p, f.Name())
		switch classify(f.Type()) {
		case kScalar:
			srt := sortOf(f.Type())
			fn := jsonFun(name, path, srt)
			vc.strLits["fun."+fn] = "(Int) " + srt
			nv := st.declare("dec", srt)
			st.assume(tImp(ok, tEq(nv, app(smtIdent(fn), srt, arr))))
			st.store(np, TV{nv, f.Type()})
		case kStruct:
			st.jsonDecodeInto(np, f.Type(), path, arr, ok)
		default:
			st.store(np, st.freshVal("dec", f.Type()))
		}
	}
}
