package main

import (
	"runtime"
	"bytes"
	"context"
	"fmt"
	"os"
	"os/exec"
	"path/filepath"
	"regexp"
	"sort"
	"strings"
	"sync"
	"time"
)

var tpSortRe = regexp.MustCompile(`\bTP_[A-Za-z0-9_]+`)

const ifacePrelude = `(declare-fun typeof (Int) Int)
(declare-fun mkptr (Int Int) Int)
(declare-fun ptrof (Int) Int)
(declare-fun mkint (Int Int) Int)
(declare-fun intof (Int) Int)
(assert (= (typeof 0) 0))
(assert (forall ((t Int) (r Int)) (! (and (= (typeof (mkptr t r)) t) (= (ptrof (mkptr t r)) r) (not (= (mkptr t r) 0))) :pattern ((mkptr t r)))))
(assert (forall ((t Int) (r Int)) (! (and (= (typeof (mkint t r)) t) (= (intof (mkint t r)) r) (not (= (mkint t r) 0))) :pattern ((mkint t r)))))
(declare-fun isptrtid (Int) Bool)
(assert (forall ((x Int)) (! (=> (isptrtid (typeof x)) (= (mkptr (typeof x) (ptrof x)) x)) :pattern ((ptrof x)))))
`

const basePrelude = `(define-fun goquo ((a Int) (b Int)) Int (ite (>= a 0) (ite (> b 0) (div a b) (- (div a (- b)))) (ite (> b 0) (- (div (- a) b)) (div (- a) (- b)))))
(define-fun gorem ((a Int) (b Int)) Int (- a (* b (goquo a b))))
(define-fun toU32 ((x Int)) Int (mod x 4294967296))
`

// buildQuery assembles the SMT-LIB text of an obligation.
func (vc *VC) buildQuery(o *Obligation, heap0 map[string]Term, extraAssume string, negate bool) string {
	var body bytes.Buffer
	// lines, root first
	var lines []string
	for l := o.lines; l != nil; l = l.prev {
		lines = append(lines, l.text)
	}
	for i := len(lines) - 1; i >= 0; i-- {
		body.WriteString(lines[i])
		body.WriteByte('\n')
	}
	if extraAssume != "" {
		body.WriteString("(assert " + extraAssume + ")\n")
	}
	if negate {
		body.WriteString("(assert (not " + o.Goal.S + "))\n")
	} else {
		body.WriteString("(assert " + o.Goal.S + ")\n")
	}
	bodyS := body.String()

	var b bytes.Buffer
	b.WriteString("(set-option :produce-models true)\n(set-logic ALL)\n")
	prel := vc.spec.prelude(o.Modules)
	all := prel + bodyS
	// sorts
	seen := map[string]bool{}
	for _, s := range tpSortRe.FindAllString(all, -1) {
		if !seen[s] {
			seen[s] = true
		}
	}
	for _, srt := range vc.keySort {
		for _, s := range tpSortRe.FindAllString(srt, -1) {
			seen[s] = true
		}
	}
	for _, s := range sortedKeys(seen) {
		b.WriteString("(declare-sort " + s + " 0)\n")
	}
	b.WriteString("(declare-sort Str 0)\n")
	if o.Modules["base"] || strings.Contains(all, "goquo") || strings.Contains(all, "gorem") || strings.Contains(all, "toU32") {
		b.WriteString(basePrelude)
	}
	hasTid := false
	for _, k := range vc.strLits {
		if k == "ptrtid" || k == "tid" {
			hasTid = true
		}
	}
	if hasTid || o.Modules["iface"] || strings.Contains(all, "typeof") || strings.Contains(all, "mkptr") || strings.Contains(all, "mkint") {
		b.WriteString(ifacePrelude)
	}
	// symbol declarations from vc.strLits
	var strs, tids, fns, ptrtids []string
	for _, name := range sortedKeys(vc.strLits) {
		kind := vc.strLits[name]
		id := smtIdent(name)
		switch {
		case strings.HasPrefix(kind, "Str:"):
			b.WriteString("(declare-const " + id + " Str)\n")
			strs = append(strs, id)
		case kind == "tid":
			b.WriteString("(declare-const " + id + " Int)\n")
			tids = append(tids, id)
		case kind == "fn":
			b.WriteString("(declare-const " + id + " Int)\n")
			fns = append(fns, id)
		case kind == "box":
			s := strings.TrimPrefix(name, "box.")
			bx, ub, is := smtIdent("box."+s), smtIdent("unbox."+s), smtIdent("is."+s)
			b.WriteString(fmt.Sprintf("(declare-fun %s (%s) Int)\n(declare-fun %s (Int) %s)\n(declare-fun %s (Int) Bool)\n", bx, s, ub, s, is))
			b.WriteString(fmt.Sprintf("(assert (forall ((t %s)) (! (= (%s (%s t)) t) :pattern ((%s t)))))\n", s, ub, bx, bx))
			b.WriteString(fmt.Sprintf("(assert (forall ((x Int)) (! (=> (%s x) (= (%s (%s x)) x)) :pattern ((%s x)))))\n", is, bx, ub, ub))
			b.WriteString(fmt.Sprintf("(assert (not (%s 0)))\n", is))
		case kind == "impl":
			b.WriteString("(declare-fun " + id + " (Int) Bool)\n")
			b.WriteString("(assert (not (" + id + " 0)))\n")
		case kind == "ptrtid":
			ptrtids = append(ptrtids, smtIdent("tid."+strings.TrimPrefix(name, "ptrtid.")))
		case strings.HasPrefix(name, "fun."):
			fname := strings.TrimPrefix(name, "fun.")
			sig := kind // "(Int Int) Int"
			b.WriteString("(declare-fun " + smtIdent(fname) + " " + sig + ")\n")
		case strings.HasPrefix(name, "zero."):
			b.WriteString("(declare-const " + id + " " + kind + ")\n")
		}
	}
	if len(strs) > 1 {
		b.WriteString("(assert (distinct " + strings.Join(strs, " ") + "))\n")
	}
	if len(tids) > 0 {
		if len(tids) > 1 {
			b.WriteString("(assert (distinct 0 " + strings.Join(tids, " ") + "))\n")
		} else {
			b.WriteString("(assert (not (= 0 " + tids[0] + ")))\n")
		}
	}
	for _, t := range ptrtids {
		b.WriteString("(assert (isptrtid " + t + "))\n")
	}
	if len(fns) > 0 {
		if len(fns) > 1 {
			b.WriteString("(assert (distinct 0 " + strings.Join(fns, " ") + "))\n")
		} else {
			b.WriteString("(assert (not (= 0 " + fns[0] + ")))\n")
		}
	}
	if strings.Contains(all, "strlen") {
		if _, ok := vc.strLits["str.\"\""]; ok {
			b.WriteString("(assert (forall ((s Str)) (! (and (>= (strlen s) 0) (= (= (strlen s) 0) (= s " + smtIdent("str.\"\"") + "))) :pattern ((strlen s)))))\n")
		}
	}
	// entry-state heap constants
	for _, k := range sortedKeys(heap0) {
		t := heap0[k]
		b.WriteString("(declare-const " + t.S + " " + t.Sort + ")\n")
	}
	b.WriteString(prel)
	b.WriteString(bodyS)
	b.WriteString("(check-sat)\n")
	return b.String()
}

type solverSpec struct {
	name string
	argv func(file string, timeoutS int) []string
}

var solvers = []solverSpec{
	{"z3-5.1.0", func(f string, t int) []string { return []string{"z3-new", fmt.Sprintf("-T:%d", t), "-smt2", f} }},
	{"z3-4.8.12", func(f string, t int) []string { return []string{"z3", fmt.Sprintf("-T:%d", t), "-smt2", f} }},
	{"cvc5-1.0.3", func(f string, t int) []string {
		return []string{"cvc5", fmt.Sprintf("--tlimit=%d", t*1000), "--lang=smt2", f}
	}},
}

type solveResult struct {
	status  string // unsat sat unknown error
	backend string
	ms      int64
	out     string
}

func runSolver(ctx context.Context, s solverSpec, file string, timeoutS int) solveResult {
	t0 := time.Now()
	argv := s.argv(file, timeoutS)
	cctx, cancel := context.WithTimeout(ctx, time.Duration(timeoutS+2)*time.Second)
	defer cancel()
	cmd := exec.CommandContext(cctx, argv[0], argv[1:]...)
	var out bytes.Buffer
	cmd.Stdout = &out
	cmd.Stderr = &out
	cmd.Run()
	ms := time.Since(t0).Milliseconds()
	first := strings.TrimSpace(strings.SplitN(out.String(), "\n", 2)[0])
	st := "unknown"
	switch first {
	case "unsat":
		st = "unsat"
	case "sat":
		st = "sat"
	case "unknown", "timeout":
		st = "unknown"
	default:
		if strings.Contains(out.String(), "error") || strings.Contains(out.String(), "Error") {
			st = "error"
		}
	}
	return solveResult{st, s.name, ms, out.String()}
}

// solveQuery: staged race. First the fast solver alone briefly, then all three concurrently.
func solveQuery(file string, quickS, fullS int, all bool) (solveResult, []solveResult) {
	var tried []solveResult
	if !all {
		r := runSolver(context.Background(), solvers[0], file, quickS)
		tried = append(tried, r)
		if r.status == "unsat" || r.status == "sat" {
			return r, tried
		}
	}
	ctx, cancel := context.WithCancel(context.Background())
	defer cancel()
	ch := make(chan solveResult, len(solvers))
	n := 0
	for i, s := range solvers {
		if !all && i == 0 && quickS >= fullS {
			continue
		}
		n++
		go func(s solverSpec) { ch <- runSolver(ctx, s, file, fullS) }(s)
	}
	var best solveResult
	best.status = "unknown"
	for i := 0; i < n; i++ {
		r := <-ch
		tried = append(tried, r)
		if r.status == "unsat" || r.status == "sat" {
			if !all {
				return r, tried
			}
			if best.status == "unknown" || best.status == "error" {
				best = r
			}
		} else if best.status == "unknown" && r.status == "error" && best.backend == "" {
			best = r
		}
	}
	if best.backend == "" && len(tried) > 0 {
		best = tried[len(tried)-1]
		best.status = "unknown"
		for _, r := range tried {
			if r.status == "error" {
				best = r
			}
		}
	}
	return best, tried
}

type solveJob struct {
	vc    *VC
	o     *Obligation
	heap0 map[string]Term
}

// dischargeAll runs all obligations through the solvers: phase A, the fast solver alone on every obligation (all cores); phase B, the
// three solvers raced on what is left, with limited parallelism so that each solver process has a core to itself.
func dischargeAll(jobs []solveJob, workDir string, quickS, fullS int, all bool, workers int) {
	if workers < 12 {
		// fewer cores than the limits were tuned for: give each query proportionally more time
		quickS, fullS = quickS*2, fullS*2
	}
	os.MkdirAll(workDir, 0o755)
	files := make([]string, len(jobs))
	var pending []int
	// phase A
	runPool(len(jobs), workers, func(i int) {
		j := jobs[i]
		o := j.o
		if o.Goal.S == "true" {
			o.Status, o.Backend = "proved", "trivial"
			if o.Kind == "guard" {
				o.Backend = "held-lock-set"
			}
			return
		}
		if o.Goal.S == "false" && o.Kind == "guard" {
			// lock-discipline obligations are decided by the executor's held-lock set (no solver needed)
			o.Status, o.Backend = "failed", "held-lock-set"
			return
		}
		extra := ""
		if j.vc.excused != nil {
			if ex := j.vc.excuseFor(o.Name); ex != nil {
				extra = "(not " + ex.term.S + ")"
			}
		}
		q := j.vc.buildQuery(o, j.heap0, extra, true)
		o.Bytes = len(q)
		if len(q) > 256*1024 {
			o.Status = "error"
			o.SolverOut = fmt.Sprintf("query exceeds size cap: %d bytes", len(q))
			return
		}
		file := filepath.Join(workDir, fmt.Sprintf("q%05d.smt2", i))
		os.WriteFile(file, []byte(q), 0o644)
		files[i] = file
		r := runSolver(context.Background(), solvers[0], file, quickS)
		recordResult(o, r, []solveResult{r}, fullS)
		if o.Status == "proved" && !(all && i%crossCheckEvery == 0) {
			os.Remove(file)
		}
		if o.Status == "failed" {
			o.Model = getModel(file, r.backend)
		}
	})
	for i, j := range jobs {
		if files[i] != "" && (j.o.Status == "unknown" || j.o.Status == "") {
			pending = append(pending, i)
		}
	}
	// phase B
	par := workers / 3
	if par < 1 {
		par = 1
	}
	runPool(len(pending), par, func(k int) {
		i := pending[k]
		o := jobs[i].o
		r, tried := raceAll(files[i], fullS, false)
		recordResult(o, r, tried, fullS)
		if o.Status == "failed" {
			o.Model = getModel(files[i], r.backend)
		}
		if o.Status == "proved" && !(all && i%crossCheckEvery == 0) {
			os.Remove(files[i])
		}
	})
	// phase C: a handful of obligations left undecided may be victims of a loaded machine rather than of the code: they get one more, much
	// longer attempt (many undecided obligations are a real failure and are not retried, so a failing tree stays quick to report)
	var undecided []int
	for _, i := range pending {
		if jobs[i].o.Status == "unknown" {
			undecided = append(undecided, i)
		}
	}
	if n := len(undecided); n > 0 && n <= 12 {
		runPool(n, 2, func(k int) {
			i := undecided[k]
			o := jobs[i].o
			r, tried := raceAll(files[i], 4*fullS, false)
			recordResult(o, r, tried, 4*fullS)
			if o.Status == "failed" {
				o.Model = getModel(files[i], r.backend)
			}
			if o.Status == "proved" {
				o.Unstable = true
				os.Remove(files[i])
			}
		})
	}
	// thorough tier: every crossCheckEvery-th discharged obligation is also given to the other two solvers (20 s each); an answer `sat`
	// from any of them is a disagreement between solvers and is recorded on the obligation (CrossCheck), it does not change its status
	if all {
		var sample []int
		for i, j := range jobs {
			if i%crossCheckEvery == 0 && files[i] != "" && j.o.Status == "proved" && j.o.Backend != "trivial" && j.o.Backend != "held-lock-set" {
				sample = append(sample, i)
			}
		}
		runPool(len(sample), workers/2, func(k int) {
			i := sample[k]
			o := jobs[i].o
			for _, sv := range solvers {
				if sv.name == o.Backend {
					continue
				}
				r := runSolver(context.Background(), sv, files[i], 20)
				o.CrossCheck = append(o.CrossCheck, sv.name+":"+r.status)
			}
			os.Remove(files[i])
		})
	}
}

const crossCheckEvery = 16

// solverWorkers: one solver process per core, at most 16.
func solverWorkers() int {
	n := runtime.NumCPU()
	if n > 16 {
		n = 16
	}
	if n < 1 {
		n = 1
	}
	return n
}

func runPool(n, workers int, f func(i int)) {
	var wg sync.WaitGroup
	ch := make(chan int, n)
	for i := 0; i < n; i++ {
		ch <- i
	}
	close(ch)
	for w := 0; w < workers; w++ {
		wg.Add(1)
		go func() {
			defer wg.Done()
			for i := range ch {
				f(i)
			}
		}()
	}
	wg.Wait()
}

func recordResult(o *Obligation, r solveResult, tried []solveResult, fullS int) {
	o.Ms += r.ms
	o.Backend = r.backend
	switch r.status {
	case "unsat":
		o.Status = "proved"
		o.SolverOut = ""
		if r.ms > int64(fullS)*500 {
			o.Unstable = true
		}
	case "sat":
		o.Status = "failed"
	case "error":
		o.Status = "error"
		o.SolverOut = r.out
	default:
		o.Status = "unknown"
		var outs []string
		for _, t := range tried {
			outs = append(outs, t.backend+": "+strings.TrimSpace(firstLines(t.out, 3)))
		}
		o.SolverOut = strings.Join(outs, " | ")
	}
}

// raceAll: the three solvers concurrently; first definite answer wins (unless all answers are wanted).
func raceAll(file string, fullS int, all bool) (solveResult, []solveResult) {
	ctx, cancel := context.WithCancel(context.Background())
	defer cancel()
	ch := make(chan solveResult, len(solvers))
	for _, s := range solvers {
		go func(s solverSpec) { ch <- runSolver(ctx, s, file, fullS) }(s)
	}
	var tried []solveResult
	best := solveResult{status: "unknown"}
	for range solvers {
		r := <-ch
		tried = append(tried, r)
		if r.status == "unsat" || r.status == "sat" {
			if !all {
				return r, tried
			}
			if best.status != "unsat" && best.status != "sat" {
				best = r
			}
		}
	}
	if best.backend == "" {
		best = tried[len(tried)-1]
		best.status = "unknown"
		for _, r := range tried {
			if r.status == "error" {
				best = r
			}
		}
	}
	return best, tried
}

func firstLines(s string, n int) string {
	ls := strings.Split(s, "\n")
	if len(ls) > n {
		ls = ls[:n]
	}
	return strings.Join(ls, " / ")
}

func getModel(file, backend string) string {
	data, err := os.ReadFile(file)
	if err != nil {
		return ""
	}
	mf := file + ".model.smt2"
	os.WriteFile(mf, append(data, []byte("(get-model)\n")...), 0o644)
	defer os.Remove(mf)
	for _, s := range solvers {
		if s.name == backend {
			r := runSolver(context.Background(), s, mf, 20)
			return r.out
		}
	}
	return ""
}

func sortObls(os []*Obligation) {
	sort.SliceStable(os, func(i, j int) bool { return os[i].Name < os[j].Name })
}
