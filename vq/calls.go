package main

import (
	"fmt"
	"os"
	"go/types"
	"math/big"
	"strings"

	"golang.org/x/tools/go/ssa"
)

func parseNum(s string) *big.Int {
	s = strings.TrimSpace(s)
	neg := false
	if strings.HasPrefix(s, "(- ") {
		neg = true
		s = strings.TrimSuffix(strings.TrimPrefix(s, "(- "), ")")
	}
	n, _ := new(big.Int).SetString(s, 10)
	if n == nil {
		n = new(big.Int)
	}
	if neg {
		n.Neg(n)
	}
	return n
}

const maxInlineDepth = 3

// doCall handles a call instruction; returns true if execution continues elsewhere (inlined callee).
func (st *State) doCall(in *ssa.Call, b *ssa.BasicBlock, idx int) bool {
	vc := st.vc
	c := in.Common()
	var fnv Val
	if _, isB := c.Value.(*ssa.Builtin); !isB {
		fnv = st.value(c.Value)
	}
	var args []Val
	for _, a := range c.Args {
		args = append(args, st.value(a))
	}
	ord := vc.ordinals[in]
	vc.callOrd[in] = ord
	name := calleeName(c)
	st.callArgs = args
	vc.runGhost(st, "before call", name, ord)
	st.callArgs = nil
	// inline candidate?
	var devTargs []types.Type
	var devirt *ssa.Function
	if c.IsInvoke() {
		if tv, ok := fnv.(TV); ok {
			if di, ok := st.dyn[tv.T.S]; ok {
				if m, targs := vc.lookupMethod(di.typ, c.Method.Name()); m != nil {
					devirt, devTargs = m, targs
					args = append([]Val{di.val}, args...)
				}
			}
		}
	}
	if !c.IsInvoke() || devirt != nil {
		var target *ssa.Function
		var inst *ssa.Function
		var binds []Val
		if devirt != nil {
			target, inst = devirt, devirt
		}
		switch f := c.Value.(type) {
		case *ssa.Function, *ssa.MakeClosure:
			if devirt != nil {
				break
			}
			_ = f
		}
		switch f := c.Value.(type) {
		case *ssa.Function:
			if devirt == nil {
				target, inst = f, f
			}
		case *ssa.MakeClosure:
			if devirt == nil {
				target = f.Fn.(*ssa.Function)
				inst = target
				for _, bv := range f.Bindings {
					binds = append(binds, st.value(bv))
				}
			}
		default:
			if fv, ok := fnv.(FuncV); ok && devirt == nil {
				target, inst, binds = fv.Fn, fv.Fn, fv.Bind
			}
		}
		if target != nil {
			origin := target
			if o := target.Origin(); o != nil {
				origin = o
			}
			key := funcKey(origin)
			fc := vc.cs.Funcs[key]
			hasContract := fc != nil && !fc.Inline && !vc.forceInline(key)
			if devirt != nil && hasContract {
				// devirtualised interface call, by the concrete method's contract
				res := st.applyContractT(fc, origin, devTargs, args, nil, fmt.Sprintf("%s#%d", key, ord))
				st.bind(in, res)
				vc.runGhost(st, "after call", name, ord, res)
				return false
			}
			if !hasContract && !isPrimitive(target) && origin.Blocks != nil && (vc.inModule(origin) || inlineStd[pkgPathOf(origin)]) {
				if st.fr.depth >= maxInlineDepth {
					fail("inline depth exceeded at call to %s (give it a contract)", key)
				}
				if hasLoop(origin) && len(vc.loopClauses(key, 1, "loop-invariant")) == 0 {
					fail("callee %s has a loop and neither a contract nor caller-provided invariants (loop %s#1: ...)", key, key)
				}
				vc.inlined[key] = true
				vc.computeLoops(origin)
				vc.computeOrdinals(origin)
				// type parameters of the generic callee -> actual types
				if origin != inst || devTargs != nil {
					tas := inst.TypeArgs()
					if devTargs != nil {
						tas = devTargs
					}
					var tps []*types.TypeParam
					collect := func(l *types.TypeParamList) {
						if l == nil {
							return
						}
						for i := 0; i < l.Len(); i++ {
							tps = append(tps, l.At(i))
						}
					}
					collect(origin.Signature.RecvTypeParams())
					collect(origin.Signature.TypeParams())
					for i, tp := range tps {
						if i < len(tas) {
							tpSubst[tp] = tas[i]
						}
					}
				}
				nf := &Frame{fn: origin, vals: map[ssa.Value]Val{}, locals: map[*localCell]Val{}, names: map[string]Val{}, parent: st.fr,
					retBlk: b, retIdx: idx + 1, retInst: in, depth: st.fr.depth + 1, curLoopDec: map[int]Term{}}
				for i, p := range origin.Params {
					nf.vals[p] = args[i]
					nf.names[p.Name()] = args[i]
				}
				if len(origin.FreeVars) != len(binds) {
					fail("inlining closure %s: %d free variables, %d bindings", key, len(origin.FreeVars), len(binds))
				}
				for i, fvv := range origin.FreeVars {
					nf.vals[fvv] = binds[i]
					nf.names[fvv.Name()] = binds[i]
				}
				st.fr = nf
				st.enter(origin.Blocks[0], nil)
				return true
			}
		}
	}
	res := st.callCommon(c, fnv, args, in, false)
	st.bind(in, res)
	vc.runGhost(st, "after call", name, ord, res)
	return false
}

// inlineStd: standard-library packages whose real bodies are executed symbolically inside their callers.
var inlineStd = map[string]bool{"slices": true, "container/heap": true}

func pkgPathOf(f *ssa.Function) string {
	if f.Pkg != nil {
		return f.Pkg.Pkg.Path()
	}
	if f.Object() != nil && f.Object().Pkg() != nil {
		return f.Object().Pkg().Path()
	}
	return ""
}

// forceInline: the contract under verification asks for these callees to be executed from their bodies ("inlines a, b").
func (vc *VC) forceInline(key string) bool {
	if vc.fc == nil {
		return false
	}
	for _, c := range vc.fc.clauses("inlines") {
		for _, k := range strings.Split(c.Text, ",") {
			if strings.TrimSpace(k) == key {
				return true
			}
		}
	}
	return false
}

// lookupMethod: the generic origin of method name on the dynamic (pointer-to-named) type, with the type arguments of that type.
func (vc *VC) lookupMethod(t types.Type, name string) (*ssa.Function, []types.Type) {
	t = resolveTP(t)
	if p, ok := t.Underlying().(*types.Pointer); ok {
		t = types.Unalias(p.Elem())
	}
	n, ok := t.(*types.Named)
	if !ok {
		return nil, nil
	}
	var targs []types.Type
	if ta := n.TypeArgs(); ta != nil {
		for i := 0; i < ta.Len(); i++ {
			targs = append(targs, ta.At(i))
		}
	}
	o := n.Origin()
	for i := 0; i < o.NumMethods(); i++ {
		if o.Method(i).Name() == name {
			return vc.w.Prog.FuncValue(o.Method(i)), targs
		}
	}
	return nil, nil
}

func hasLoop(f *ssa.Function) bool {
	for _, b := range f.Blocks {
		for _, s := range b.Succs {
			if s.Dominates(b) {
				return true
			}
		}
	}
	return false
}

func (vc *VC) inModule(f *ssa.Function) bool {
	if f.Pkg == nil {
		return false
	}
	p := f.Pkg.Pkg.Path()
	return p == modPath || strings.HasPrefix(p, modPath+"/")
}

// callCommon: semantic effect of a call by contract / primitive; returns the result value.
func (st *State) callCommon(c *ssa.CallCommon, fnv Val, args []Val, site ssa.Instruction, isDefer bool) Val {
	vc := st.vc
	ord := vc.ordinals[site]
	if c.IsInvoke() {
		return st.invoke(c, fnv, args, site)
	}
	switch f := c.Value.(type) {
	case *ssa.Builtin:
		return st.builtin(f, c, args, site)
	case *ssa.Function:
		if r, ok := st.primitive(f, args, site); ok {
			return r
		}
		origin := f
		if o := f.Origin(); o != nil {
			origin = o
		}
		key := funcKey(origin)
		fc := vc.cs.Funcs[key]
		if fc == nil {
			if vc.inModule(origin) && isDefer {
				fail("deferred call to %s needs a contract", key)
			}
			if !vc.inModule(origin) {
				fail("call to external function %s without contract", f.String())
			}
			fail("call to %s cannot be inlined here and has no contract", key)
		}
		return st.applyContract(fc, origin, f, args, nil, fmt.Sprintf("%s#%d", key, ord))
	case *ssa.MakeClosure:
		// immediately-invoked closure: treat via its contract with bound free vars
		fn := f.Fn.(*ssa.Function)
		key := funcKey(fn)
		fc := vc.cs.Funcs[key]
		if fc == nil {
			fail("call of closure %s without contract", key)
		}
		var binds []Val
		for _, bv := range f.Bindings {
			binds = append(binds, st.value(bv))
		}
		return st.applyContract(fc, fn, fn, args, binds, fmt.Sprintf("%s#%d", key, ord))
	}
	// call through a function value
	if fv, ok := fnv.(FuncV); ok {
		key := funcKey(fv.Fn)
		if fc := vc.cs.Funcs[key]; fc != nil {
			return st.applyContract(fc, fv.Fn, fv.Fn, args, fv.Bind, fmt.Sprintf("%s#%d", key, ord))
		}
		fail("call of known function value %s without contract", key)
	}
	return st.callUnknown(c, fnv, args, site)
}

// callUnknown: call through an opaque function value (user code). Havocs what the callee can reach through pointer
// arguments, keeps library state (frame assumption "user callbacks do not touch unexported library state").
func (st *State) callUnknown(c *ssa.CallCommon, fnv Val, args []Val, site ssa.Instruction) Val {
	vc := st.vc
	// function-type contracts: "functype <Named func type>" -- what every value of that type does when called (the library's own closures
	// of that type are verified against it; the type's values cannot be built outside the library when it mentions unexported types)
	if n, ok := types.Unalias(c.Value.Type()).(*types.Named); ok {
		if fc := vc.cs.Ifaces[qualifiedName(n)+".call"]; fc != nil {
			if tv, ok := fnv.(TV); ok {
				st.nilCheck(tv.T, fmt.Sprintf("call-nil-func#%d", vc.ordinals[site]), "called function value")
			}
			return st.applyFuncType(fc, c, args, site)
		}
	}
	vc.assumptionsUsed["user callbacks (function values supplied by the client) do not write library state except through the arguments passed to them"] = true
	if tv, ok := fnv.(TV); ok {
		st.nilCheck(tv.T, fmt.Sprintf("call-nil-func#%d", vc.ordinals[site]), "called function value")
	}
	for i, a := range args {
		if tv, ok := a.(TV); ok {
			if el := derefType(c.Args[i].Type()); el != nil {
				p := st.asPtr(tv, c.Args[i].Type())
				st.store(p, st.freshVal("cbout", el))
			}
		}
	}
	k := "G:$usercalls"
	vc.setKeySort(k, SInt)
	st.set(k, tAdd(st.get(k), tInt(1)))
	// panic outcome: explored when a frame on the stack can recover (or the contract wants panics contained)
	canRecover := false
	for fr := st.fr; fr != nil; fr = fr.parent {
		if fr.fn.Recover != nil && frameRecovers(fr.fn) {
			canRecover = true
		}
	}
	if canRecover {
		ps := st.fork()
		ps.panicking = true
		ps.ghostLocals["$panicked"] = TV{tTrue, types.Typ[types.Bool]}
		ps.unwind()
	}
	if _, ok := st.ghostLocals["$panicked"]; !ok {
		st.ghostLocals["$panicked"] = TV{tFalse, types.Typ[types.Bool]}
	}
	sig := c.Signature()
	res := st.freshResults(sig.Results(), "ucall")
	st.resultsAllocated(res, sig.Results())
	return res
}

func (st *State) freshResults(res *types.Tuple, prefix string) Val {
	st.noAllocAssume = true
	defer func() { st.noAllocAssume = false }()
	switch res.Len() {
	case 0:
		return TupleV{}
	case 1:
		return st.freshVal(prefix, res.At(0).Type())
	}
	out := TupleV{}
	for i := 0; i < res.Len(); i++ {
		out.E = append(out.E, st.freshVal(fmt.Sprintf("%s.%d", prefix, i), res.At(i).Type()))
	}
	return out
}

// resultsAllocated: reference results of a call are allocated in the state after the call.
func (st *State) resultsAllocated(res Val, rt *types.Tuple) {
	one := func(v Val, t types.Type) {
		if tv, ok := v.(TV); ok && isRefLike(t) {
			st.assumeAllocated(tv.T)
		}
		if sv, ok := v.(SliceV); ok {
			st.assumeAllocated(sv.Arr)
		}
	}
	switch r := res.(type) {
	case TupleV:
		for i, e := range r.E {
			if i < rt.Len() {
				one(e, rt.At(i).Type())
			}
		}
	default:
		if rt.Len() == 1 {
			one(res, rt.At(0).Type())
		}
	}
}

// applyContract: assert requires, havoc modifies, assume ensures.
// applyContractT: like applyContract, with explicit type arguments for the callee's (receiver) type parameters.
func (st *State) applyContractT(fc *FuncContract, origin *ssa.Function, targs []types.Type, args []Val, binds []Val, siteLabel string) Val {
	st.vc.explicitTargs = targs
	defer func() { st.vc.explicitTargs = nil }()
	return st.applyContract(fc, origin, origin, args, binds, siteLabel)
}

func (st *State) applyContract(fc *FuncContract, origin, inst *ssa.Function, args []Val, binds []Val, siteLabel string) Val {
	vc := st.vc
	vc.usedContracts[fc.Key] = true
	st.holdsAtCall(fc, siteLabel, args)
	names := map[string]Val{}
	for i, p := range origin.Params {
		if i < len(args) {
			names[p.Name()] = args[i]
		}
	}
	for i, fv := range origin.FreeVars {
		if i < len(binds) {
			names[fv.Name()] = binds[i]
		}
	}
	// type parameter environment: callee's type params -> actual types
	tenv := map[string]types.Type{}
	if (inst != nil && origin != inst) || vc.explicitTargs != nil {
		tas := inst.TypeArgs()
		if vc.explicitTargs != nil {
			tas = vc.explicitTargs
		}
		var tps []*types.TypeParam
		collect := func(l *types.TypeParamList) {
			if l == nil {
				return
			}
			for i := 0; i < l.Len(); i++ {
				tps = append(tps, l.At(i))
			}
		}
		collect(origin.Signature.RecvTypeParams())
		collect(origin.Signature.TypeParams())
		for i, tp := range tps {
			if i < len(tas) {
				tenv[tp.Obj().Name()] = tas[i]
				if tas[i] != types.Type(tp) {
					tpSubst[tp] = tas[i]
				}
			}
		}
	} else {
		tenv = vc.tparamEnv(origin)
	}
	pkg := origin.Pkg
	var tpkg *types.Package
	if pkg != nil {
		tpkg = pkg.Pkg
	} else if origin.Object() != nil {
		tpkg = origin.Object().Pkg()
	}
	// implicit: pointer receiver non-nil
	if origin.Signature.Recv() != nil && len(args) > 0 {
		if tv, ok := args[0].(TV); ok {
			if _, isPtr := types.Unalias(origin.Params[0].Type()).Underlying().(*types.Pointer); isPtr {
				st.nilCheck(tv.T, "recv@"+siteLabel, "receiver of "+fc.Key)
			}
		}
	}
	for i, c := range fc.clauses("requires") {
		if c.Mode != "" && c.Mode != vc.mode {
			continue
		}
		e, err := c.expr()
		if err != nil {
			fail("%v", err)
		}
		ec := &EvalCtx{st: st, names: names, pkg: tpkg, tparams: tenv}
		for gi, g := range ec.evalConjuncts(e) {
			st.oblige("pre", fmt.Sprintf("%s.%d@%s", clauseLabel(c, i), gi+1, siteLabel), g.t, g.text)
		}
	}
	// snapshot for old()
	oldHeap := make(map[string]Term, len(st.heap))
	for k, v := range st.heap {
		oldHeap[k] = v
	}
	// results (declared first so that modifies targets may mention them)
	res := st.freshResults(origin.Signature.Results(), "ret")
	rnames := copyNames(names)
	switch r := res.(type) {
	case TupleV:
		for i, e := range r.E {
			if i == 0 {
				rnames["result"] = e
			}
			rnames[fmt.Sprintf("result%d", i)] = e
		}
	default:
		rnames["result"] = res
		rnames["result0"] = res
	}
	// havoc modifies
	{
		var tgts []string
		for _, c := range fc.clauses("modifies") {
			if c.Mode != "" && c.Mode != vc.mode {
				continue
			}
			tgts = append(tgts, splitTargets(c.Text)...)
		}
		ec := &EvalCtx{st: st, names: rnames, pkg: tpkg, tparams: tenv}
		ec.havocTargets(tgts)
	}
	saved := st.old
	st.old = oldHeap
	for _, c := range fc.clauses("ensures") {
		if c.Mode != "" && c.Mode != vc.mode {
			continue
		}
		e, err := c.expr()
		if err != nil {
			fail("%v", err)
		}
		ec := &EvalCtx{st: st, names: rnames, pkg: tpkg, tparams: tenv, callee: true}
		st.assume(ec.evalBool(e))
	}
	st.old = saved
	st.resultsAllocated(res, origin.Signature.Results())
	if os.Getenv("VQ_DEBUG_FEAS") != "" {
		st.oblige("feas", "after@"+siteLabel, tFalse, "debug: path still feasible after this call (expected: NOT proved)")
	}
	return res
}

func splitTargets(s string) []string {
	var out []string
	depth := 0
	cur := ""
	for _, c := range s {
		switch c {
		case '(', '[', '{':
			depth++
		case ')', ']', '}':
			depth--
		}
		if c == ',' && depth == 0 {
			out = append(out, strings.TrimSpace(cur))
			cur = ""
			continue
		}
		cur += string(c)
	}
	if strings.TrimSpace(cur) != "" {
		out = append(out, strings.TrimSpace(cur))
	}
	return out
}

// ---------- interface method calls ----------

func (st *State) invoke(c *ssa.CallCommon, recv Val, args []Val, site ssa.Instruction) Val {
	vc := st.vc
	m := c.Method
	// find the interface contract: by declaring interface of the method, then by static receiver type name
	var cands []string
	rt := types.Unalias(c.Value.Type())
	if tp, ok := rt.(*types.TypeParam); ok {
		rt = types.Unalias(tp.Constraint())
	}
	if n, ok := rt.(*types.Named); ok {
		cands = append(cands, ifaceCandidates(n, m.Name())...)
	}
	var fc *FuncContract
	for _, k := range cands {
		if x := vc.cs.Ifaces[k]; x != nil {
			fc = x
			break
		}
	}
	if fc == nil {
		fail("no interface contract for %s.%s (tried %v)", typeRepr(c.Value.Type()), m.Name(), cands)
	}
	vc.usedContracts["iface "+fc.Key] = true
	names := map[string]Val{"self": recv}
	sig := m.Type().(*types.Signature)
	for i := 0; i < sig.Params().Len(); i++ {
		n := sig.Params().At(i).Name()
		if n == "" || n == "_" {
			n = fmt.Sprintf("arg%d", i)
		}
		names[n] = args[i]
		names[fmt.Sprintf("arg%d", i)] = args[i]
	}
	if tv, ok := recv.(TV); ok && tv.T.Sort == SInt {
		st.nilCheck(tv.T, fmt.Sprintf("invoke-nil#%s#%d", m.Name(), vc.ordinals[site]), "receiver of interface call "+m.Name())
	}
	tenv := vc.tparamEnv(vc.fn)
	siteLabel := fmt.Sprintf("%s#%d", fc.Key, vc.ordinals[site])
	for i, cl := range fc.clauses("requires") {
		e, err := cl.expr()
		if err != nil {
			fail("%v", err)
		}
		ec := &EvalCtx{st: st, names: names, pkg: vc.fn.Pkg.Pkg, tparams: tenv}
		st.oblige("pre", fmt.Sprintf("%s@%s", clauseLabel(cl, i), siteLabel), ec.evalBool(e), e.String())
	}
	oldHeap := make(map[string]Term, len(st.heap))
	for k, v := range st.heap {
		oldHeap[k] = v
	}
	{
		var tgts []string
		for _, cl := range fc.clauses("modifies") {
		if cl.Mode != "" && cl.Mode != st.vc.mode {
			continue
		}
			if cl.Mode != "" && cl.Mode != st.vc.mode {
				continue
			}
			tgts = append(tgts, splitTargets(cl.Text)...)
		}
		ec := &EvalCtx{st: st, names: names, pkg: vc.fn.Pkg.Pkg, tparams: tenv}
		ec.havocTargets(tgts)
	}
	res := st.freshResults(sig.Results(), "iret")
	rnames := copyNames(names)
	switch r := res.(type) {
	case TupleV:
		for i, e := range r.E {
			if i == 0 {
				rnames["result"] = e
			}
			rnames[fmt.Sprintf("result%d", i)] = e
		}
	default:
		rnames["result"] = res
		rnames["result0"] = res
	}
	saved := st.old
	st.old = oldHeap
	for _, cl := range fc.clauses("ensures") {
		e, err := cl.expr()
		if err != nil {
			fail("%v", err)
		}
		ec := &EvalCtx{st: st, names: rnames, pkg: vc.fn.Pkg.Pkg, tparams: tenv, callee: true}
		st.assume(ec.evalBool(e))
	}
	st.old = saved
	st.resultsAllocated(res, sig.Results())
	return res
}

// ifaceCandidates: contract keys to try for method m of named interface n (n itself, then embedded interfaces).
func ifaceCandidates(n *types.Named, m string) []string {
	var out []string
	seen := map[string]bool{}
	var walk func(t types.Type)
	walk = func(t types.Type) {
		t = types.Unalias(t)
		nn, ok := t.(*types.Named)
		if !ok {
			return
		}
		k := qualifiedName(nn) + "." + m
		if seen[k] {
			return
		}
		seen[k] = true
		out = append(out, k)
		if it, ok := nn.Underlying().(*types.Interface); ok {
			for i := 0; i < it.NumEmbeddeds(); i++ {
				walk(it.EmbeddedType(i))
			}
		}
	}
	walk(n)
	return out
}

// ---------- builtins ----------

func (st *State) builtin(f *ssa.Builtin, c *ssa.CallCommon, args []Val, site ssa.Instruction) Val {
	vc := st.vc
	switch f.Name() {
	case "len":
		switch a := args[0].(type) {
		case SliceV:
			return TV{a.Len, types.Typ[types.Int]}
		case TV:
			if a.T.Sort == SStr {
				vc.strLits["fun.strlen"] = "(Str) Int"
				r := st.define("slen", app("strlen", SInt, a.T))
				st.assume(tGe(r, tInt(0)))
				return TV{r, types.Typ[types.Int]}
			}
			if _, isChan := types.Unalias(c.Args[0].Type()).Underlying().(*types.Chan); isChan {
				st.setChanElem(c.Args[0].Type())
				return TV{st.chanGet(a.T, "len"), types.Typ[types.Int]}
			}
		}
	case "cap":
		switch a := args[0].(type) {
		case SliceV:
			return TV{a.Cap, types.Typ[types.Int]}
		case TV:
			if _, isChan := types.Unalias(c.Args[0].Type()).Underlying().(*types.Chan); isChan {
				st.setChanElem(c.Args[0].Type())
				return TV{st.chanGet(a.T, "cap"), types.Typ[types.Int]}
			}
		}
	case "min", "max":
		r := args[0].(TV).T
		for _, a := range args[1:] {
			b := a.(TV).T
			if f.Name() == "min" {
				r = tIte(tLe(r, b), r, b)
			} else {
				r = tIte(tGe(r, b), r, b)
			}
		}
		return TV{st.define(f.Name(), r), c.Args[0].Type()}
	case "append":
		return st.appendOp(c, args, site)
	case "close":
		ch := args[0].(TV).T
		st.setChanElem(c.Args[0].Type())
		lbl := fmt.Sprintf("close#%d", vc.ordinals[site])
		st.oblige("chan", lbl+":not-nil", tNot(tEq(ch, tInt(0))), "close of non-nil channel")
		st.oblige("chan", lbl+":not-closed", st.chanGet(ch, "open"), "close of a channel that is still open")
		st.chanSet(ch, "open", tFalse)
		return TupleV{}
	case "recover":
		// modelled only inside utils.WithSafe's deferred closure via its contract
		if st.panicking {
			c := st.declare("recovered", SInt)
			st.assume(tNot(tEq(c, tInt(0))))
			st.panicking = false
			return TV{c, f.Type().(*types.Signature).Results().At(0).Type()}
		}
		return TV{tInt(0), types.NewInterfaceType(nil, nil)}
	case "print", "println":
		return TupleV{}
	case "clear":
		// clear(s) on a slice: every element in [0, len) becomes the zero value, nothing else changes
		sv, ok := args[0].(SliceV)
		if !ok {
			fail("clear of %T (only slices are modelled)", args[0])
		}
		if sv.Off.S != "0" {
			fail("clear of a slice with non-zero offset is outside the modelled subset")
		}
		el := sliceElem(sv.Typ)
		p := PtrV{Kind: "elem", Root: typeRepr(el), Base: sv.Arr, Idx: tInt(0), Elem: el}
		for _, lf := range leavesOf(el, "") {
			key, _ := st.leafSortKey(p, lf)
			a := st.get(key)
			oldInner := st.define("clrold", tSelect(a, sv.Arr))
			ni := st.declare("clrinner", arrSort(SInt, lf.sort))
			z := st.zeroTerm(lf.typ)
			st.addLine(fmt.Sprintf("(assert (forall ((i Int)) (! (= (select %s i) (ite (and (<= 0 i) (< i %s)) %s (select %s i))) :pattern ((select %s i)))))",
				ni.S, sv.Len.S, z.S, oldInner.S, ni.S))
			st.set(key, tStore(a, sv.Arr, ni))
		}
		return TupleV{}
	}
	fail("unsupported builtin %s", f.Name())
	return nil
}

func (st *State) appendOp(c *ssa.CallCommon, args []Val, site ssa.Instruction) Val {
	vc := st.vc
	sv, ok := args[0].(SliceV)
	if !ok {
		fail("append to %T", args[0])
	}
	if len(args) != 2 {
		fail("append arity")
	}
	add, ok := args[1].(SliceV)
	if !ok {
		fail("append of %T", args[1])
	}
	if sv.Off.S != "0" {
		fail("append to a slice with non-zero offset is outside the modelled subset")
	}
	el := sliceElem(sv.Typ)
	n := add.Len
	newLen := st.define("alen", tAdd(sv.Len, n))
	st.ovfCheck(newLen, types.Typ[types.Int], fmt.Sprintf("append#%d", vc.ordinals[site]))
	// outcome 1: in place (newLen <= cap); outcome 2: fresh backing array.
	inPlace := st.define("inplace", tLe(newLen, sv.Cap))
	fresh := st.allocRef("arr")
	arr := st.define("aarr", tIte(inPlace, sv.Arr, fresh))
	ncap := st.declare("acap", SInt)
	st.assume(tAnd(tGe(ncap, newLen), tImp(inPlace, tEq(ncap, sv.Cap)), tLe(ncap, Term{"9223372036854775807", SInt})))
	p := PtrV{Kind: "elem", Root: typeRepr(el), Base: arr, Idx: tInt(0), Elem: el}
	for _, lf := range leavesOf(el, "") {
		key, _ := st.leafSortKey(p, lf)
		a := st.get(key)
		oldInner := st.define("oldin", tSelect(a, sv.Arr))
		addInner := tSelect(a, add.Arr)
		ni := st.declare("ainner", arrSort(SInt, lf.sort))
		// prefix preserved
		st.addLine(fmt.Sprintf("(assert (forall ((i Int)) (! (=> (and (<= 0 i) (< i %s)) (= (select %s i) (select %s i))) :pattern ((select %s i)))))",
			sv.Len.S, ni.S, oldInner.S, ni.S))
		// in place: everything outside the appended window is unchanged
		st.addLine(fmt.Sprintf("(assert (=> %s (forall ((i Int)) (! (=> (or (< i %s) (>= i %s)) (= (select %s i) (select %s i))) :pattern ((select %s i))))))",
			inPlace.S, sv.Len.S, newLen.S, ni.S, oldInner.S, ni.S))
		// appended elements
		if n.S == "1" {
			st.assume(tEq(tSelect(ni, sv.Len), tSelect(addInner, add.Off)))
		} else {
			st.addLine(fmt.Sprintf("(assert (forall ((i Int)) (! (=> (and (<= %s i) (< i %s)) (= (select %s i) (select %s (+ %s (- i %s))))) :pattern ((select %s i)))))",
				sv.Len.S, newLen.S, ni.S, addInner.S, add.Off.S, sv.Len.S, ni.S))
		}
		st.set(key, tStore(a, arr, ni))
	}
	off := tInt(0)
	return SliceV{arr, off, newLen, ncap, sv.Typ}
}

// ---------- loop modification sets ----------

func (vc *VC) computeLoopMod(li *loopInfo) {
	if li.mod == nil {
		li.mod = map[string]bool{}
	}
	for b := range li.body {
		for _, in := range b.Instrs {
			vc.instrMod(in, li, 0)
		}
	}
}

func (vc *VC) instrMod(in ssa.Instruction, li *loopInfo, depth int) {
	switch x := in.(type) {
	case *ssa.Store:
		vc.addrMod(x.Addr, x.Val.Type(), li)
	case *ssa.Call:
		vc.callMod(x.Common(), li, depth)
	case *ssa.Defer:
		vc.callMod(x.Common(), li, depth)
	case *ssa.Go:
		li.mod["G:$spawned"] = true
	case *ssa.Send, *ssa.Select:
		li.mod["CH:sent<"], li.mod["CH:rcvd<"], li.mod["CHV:<"] = true, true, true
	case *ssa.MakeChan:
		li.mod["CH:sent<"], li.mod["CH:rcvd<"], li.mod["CH:open<"], li.mod["CH:cap<"], li.mod[allocKey] = true, true, true, true, true
	case *ssa.Alloc:
		if x.Heap {
			li.mod[allocKey] = true
			vc.typeMod(PtrV{Kind: "obj", Root: rootName(derefType(x.Type()))}, derefType(x.Type()), "", li)
		}
	case *ssa.MakeSlice:
		li.mod[allocKey] = true
		el := sliceElem(x.Type())
		vc.typeMod(PtrV{Kind: "elem", Root: typeRepr(el)}, el, "", li)
	case *ssa.UnOp:
		if x.Op.String() == "<-" {
			li.mod["CH:sent<"], li.mod["CH:rcvd<"], li.mod["CH:open<"], li.mod["CHV:<"] = true, true, true, true
		}
	}
}

func (vc *VC) typeMod(p PtrV, t types.Type, sub string, li *loopInfo) {
	for _, lf := range leavesOf(t, sub) {
		li.mod[vc.leafKey(p, lf.path)] = true
	}
}

// addrMod: keys possibly written by a store through addr.
func (vc *VC) addrMod(addr ssa.Value, vt types.Type, li *loopInfo) {
	switch a := addr.(type) {
	case *ssa.Alloc:
		if !a.Heap {
			return
		}
		el := derefType(a.Type())
		if classify(el) == kStruct {
			vc.typeMod(PtrV{Kind: "obj", Root: rootName(el)}, el, "", li)
		} else {
			vc.typeMod(PtrV{Kind: "cell", Root: typeRepr(el)}, el, "", li)
		}
	case *ssa.FieldAddr:
		root, path, kind, ok := staticPath(a)
		if !ok {
			li.modAll = true
			return
		}
		vc.typeMod(PtrV{Kind: kind, Root: root, Path: ""}, derefType(a.Type()), path, li)
	case *ssa.IndexAddr:
		el := derefType(a.Type())
		vc.typeMod(PtrV{Kind: "elem", Root: typeRepr(el)}, el, "", li)
	case *ssa.Global:
		el := derefType(a.Type())
		vc.typeMod(PtrV{Kind: "cell", Root: "global." + shortPkg(a.Pkg.Pkg.Path()) + "." + a.Name()}, el, "", li)
	default:
		el := derefType(addr.Type())
		if el == nil {
			li.modAll = true
			return
		}
		if classify(el) == kStruct {
			vc.typeMod(PtrV{Kind: "obj", Root: rootName(el)}, el, "", li)
		} else {
			vc.typeMod(PtrV{Kind: "cell", Root: typeRepr(el)}, el, "", li)
		}
	}
}

// staticPath resolves a chain of FieldAddr to (root struct name, path, region kind).
func staticPath(a *ssa.FieldAddr) (string, string, string, bool) {
	stt := derefType(a.X.Type()).Underlying().(*types.Struct)
	fname := stt.Field(a.Field).Name()
	switch x := a.X.(type) {
	case *ssa.FieldAddr:
		r, p, k, ok := staticPath(x)
		return r, joinPath(p, fname), k, ok
	case *ssa.IndexAddr:
		el := derefType(x.Type())
		return typeRepr(el), fname, "elem", true
	default:
		el := derefType(a.X.Type())
		return rootName(el), fname, "obj", true
	}
}

func (vc *VC) callMod(c *ssa.CallCommon, li *loopInfo, depth int) {
	if c.IsInvoke() {
		// interface contracts: modifies clauses name ghost maps only
		rt := types.Unalias(c.Value.Type())
		if tp, ok := rt.(*types.TypeParam); ok {
			rt = types.Unalias(tp.Constraint())
		}
		if n, ok := rt.(*types.Named); ok {
			for _, k := range ifaceCandidates(n, c.Method.Name()) {
				if fc := vc.cs.Ifaces[k]; fc != nil {
					vc.contractMod(fc, nil, nil, li)
					return
				}
			}
		}
		li.modAll = true
		return
	}
	switch f := c.Value.(type) {
	case *ssa.Builtin:
		if f.Name() == "append" {
			li.mod[allocKey] = true
			el := sliceElem(c.Args[0].Type())
			vc.typeMod(PtrV{Kind: "elem", Root: typeRepr(el)}, el, "", li)
		}
		if f.Name() == "close" {
			li.mod["CH:open<"] = true
		}
		if f.Name() == "clear" {
			if el := sliceElem(c.Args[0].Type()); el != nil {
				vc.typeMod(PtrV{Kind: "elem", Root: typeRepr(el)}, el, "", li)
			}
		}
		return
	case *ssa.Function:
		if isPrimitive(f) {
			vc.primitiveMod(f, c, li)
			return
		}
		origin := f
		if o := f.Origin(); o != nil {
			origin = o
		}
		key := funcKey(origin)
		if fc := vc.cs.Funcs[key]; fc != nil && !fc.Inline {
			vc.contractMod(fc, origin, c, li)
			return
		}
		if vc.inModule(origin) && origin.Blocks != nil && depth < maxInlineDepth {
			for _, b := range origin.Blocks {
				for _, in := range b.Instrs {
					vc.instrMod(in, li, depth+1)
				}
			}
			return
		}
		li.modAll = true
	default:
		// unknown function value: may write through pointer arguments
		for _, a := range c.Args {
			if el := derefType(a.Type()); el != nil {
				if classify(el) == kStruct {
					vc.typeMod(PtrV{Kind: "obj", Root: rootName(el)}, el, "", li)
				} else {
					vc.typeMod(PtrV{Kind: "cell", Root: typeRepr(el)}, el, "", li)
				}
			}
		}
		li.mod["G:$usercalls"] = true
	}
}

// contractMod: static over-approximation of the keys a contract's modifies clauses name, with the static types at the call site.
func (vc *VC) contractMod(fc *FuncContract, origin *ssa.Function, c *ssa.CallCommon, li *loopInfo) {
	for _, cl := range fc.clauses("modifies") {
		if cl.Mode != "" && cl.Mode != vc.mode {
			continue
		}
		for _, tgt := range splitTargets(cl.Text) {
			keys, ok := vc.staticTargetKeys(tgt, origin, c)
			if !ok {
				li.modAll = true
				return
			}
			for _, k := range keys {
				li.mod[k] = true
			}
		}
	}
}

// frameRecovers: the function defers a closure that calls recover().
func frameRecovers(f *ssa.Function) bool {
	for _, a := range f.AnonFuncs {
		for _, b := range a.Blocks {
			for _, in := range b.Instrs {
				if c, ok := in.(*ssa.Call); ok {
					if bi, ok := c.Call.Value.(*ssa.Builtin); ok && bi.Name() == "recover" {
						return true
					}
				}
			}
		}
	}
	return false
}

// applyFuncType: a call through a value of a named function type that has a contract.
func (st *State) applyFuncType(fc *FuncContract, c *ssa.CallCommon, args []Val, site ssa.Instruction) Val {
	vc := st.vc
	vc.usedContracts["functype "+fc.Key] = true
	names := map[string]Val{}
	for i, a := range args {
		names[fmt.Sprintf("arg%d", i)] = a
	}
	sig := c.Signature()
	for i := 0; i < sig.Params().Len() && i < len(args); i++ {
		if n := sig.Params().At(i).Name(); n != "" && n != "_" {
			names[n] = args[i]
		}
	}
	tenv := vc.tparamEnv(vc.fn)
	siteLabel := fmt.Sprintf("%s#%d", fc.Key, vc.ordinals[site])
	for i, cl := range fc.clauses("requires") {
		e, err := cl.expr()
		if err != nil {
			fail("%v", err)
		}
		ec := &EvalCtx{st: st, names: names, pkg: vc.fn.Pkg.Pkg, tparams: tenv}
		for gi, g := range ec.evalConjuncts(e) {
			st.oblige("pre", fmt.Sprintf("%s.%d@%s", clauseLabel(cl, i), gi+1, siteLabel), g.t, g.text)
		}
	}
	oldHeap := make(map[string]Term, len(st.heap))
	for k, v := range st.heap {
		oldHeap[k] = v
	}
	var tgts []string
	for _, cl := range fc.clauses("modifies") {
		if cl.Mode != "" && cl.Mode != st.vc.mode {
			continue
		}
		tgts = append(tgts, splitTargets(cl.Text)...)
	}
	(&EvalCtx{st: st, names: names, pkg: vc.fn.Pkg.Pkg, tparams: tenv}).havocTargets(tgts)
	k := "G:$usercalls"
	vc.setKeySort(k, SInt)
	st.set(k, tAdd(st.get(k), tInt(1)))
	res := st.freshResults(sig.Results(), "ftret")
	rnames := copyNames(names)
	rnames["result"] = res
	saved := st.old
	st.old = oldHeap
	for _, cl := range fc.clauses("ensures") {
		e, err := cl.expr()
		if err != nil {
			fail("%v", err)
		}
		st.assume((&EvalCtx{st: st, names: rnames, pkg: vc.fn.Pkg.Pkg, tparams: tenv, callee: true}).evalBool(e))
	}
	st.old = saved
	st.resultsAllocated(res, sig.Results())
	return res
}
