package main

import (
	"fmt"
	"strings"
	"unicode"
)

// Contract expression AST.
type CExpr struct {
	Kind    string // int str ident ghost spec bin un sel index slice call old forall exists ite
	Op      string
	Name    string
	Lit     string
	Args    []*CExpr
	Binders []Binder
	Trig    []*CExpr
}

type Binder struct {
	Name string
	Type string // textual type: int, bool, ref, T, *Chunk ...
}

func (e *CExpr) String() string {
	switch e.Kind {
	case "int", "str":
		return e.Lit
	case "ident":
		return e.Name
	case "ghost":
		return "$" + e.Name
	case "spec":
		return "@" + e.Name + "(" + joinExprs(e.Args) + ")"
	case "bin":
		return "(" + e.Args[0].String() + " " + e.Op + " " + e.Args[1].String() + ")"
	case "un":
		return e.Op + e.Args[0].String()
	case "sel":
		return e.Args[0].String() + "." + e.Name
	case "index":
		return e.Args[0].String() + "[" + e.Args[1].String() + "]"
	case "call":
		return e.Name + "(" + joinExprs(e.Args) + ")"
	case "old":
		return "old(" + e.Args[0].String() + ")"
	case "forall", "exists":
		var bs []string
		for _, b := range e.Binders {
			bs = append(bs, b.Name+" "+b.Type)
		}
		return "(" + e.Kind + " " + strings.Join(bs, ", ") + " :: " + e.Args[0].String() + ")"
	case "ite":
		return "(" + e.Args[0].String() + " ? " + e.Args[1].String() + " : " + e.Args[2].String() + ")"
	}
	return "?" + e.Kind
}

func joinExprs(es []*CExpr) string {
	var ss []string
	for _, e := range es {
		ss = append(ss, e.String())
	}
	return strings.Join(ss, ", ")
}

type tok struct {
	k string // int str id op eof
	s string
}

func lexExpr(src string) ([]tok, error) {
	var toks []tok
	i := 0
	n := len(src)
	for i < n {
		c := src[i]
		switch {
		case c == ' ' || c == '\t' || c == '\n':
			i++
		case c >= '0' && c <= '9':
			j := i
			for j < n && (src[j] >= '0' && src[j] <= '9' || src[j] == '_' || src[j] == 'x' || (src[j] >= 'a' && src[j] <= 'f') || (src[j] >= 'A' && src[j] <= 'F')) {
				j++
			}
			toks = append(toks, tok{"int", strings.ReplaceAll(src[i:j], "_", "")})
			i = j
		case c == '"':
			j := i + 1
			for j < n && src[j] != '"' {
				j++
			}
			if j >= n {
				return nil, fmt.Errorf("unterminated string")
			}
			toks = append(toks, tok{"str", src[i+1 : j]})
			i = j + 1
		case c == '_' || unicode.IsLetter(rune(c)):
			j := i
			for j < n && (src[j] == '_' || unicode.IsLetter(rune(src[j])) || unicode.IsDigit(rune(src[j]))) {
				j++
			}
			toks = append(toks, tok{"id", src[i:j]})
			i = j
		default:
			for _, op := range []string{"==>", "<==>", "::", "==", "!=", "<=", ">=", "&&", "||", ":="} {
				if strings.HasPrefix(src[i:], op) {
					toks = append(toks, tok{"op", op})
					i += len(op)
					goto next
				}
			}
			if strings.ContainsRune("+-*/%<>!()[]{}.,:$@?#", rune(c)) {
				toks = append(toks, tok{"op", string(c)})
				i++
			} else {
				return nil, fmt.Errorf("unexpected character %q in %q", c, src)
			}
		next:
		}
	}
	toks = append(toks, tok{"eof", ""})
	return toks, nil
}

type eparser struct {
	toks []tok
	p    int
}

func parseCExpr(src string) (*CExpr, error) {
	toks, err := lexExpr(src)
	if err != nil {
		return nil, err
	}
	ps := &eparser{toks: toks}
	e, err := ps.expr()
	if err != nil {
		return nil, fmt.Errorf("%v in %q", err, src)
	}
	if ps.peek().k != "eof" {
		return nil, fmt.Errorf("trailing input at %q in %q", ps.peek().s, src)
	}
	return e, nil
}

func (p *eparser) peek() tok { return p.toks[p.p] }
func (p *eparser) next() tok  { t := p.toks[p.p]; p.p++; return t }
func (p *eparser) isOp(s string) bool {
	t := p.peek()
	return t.k == "op" && t.s == s
}
func (p *eparser) accept(s string) bool {
	if p.isOp(s) {
		p.p++
		return true
	}
	return false
}
func (p *eparser) expect(s string) error {
	if !p.accept(s) {
		return fmt.Errorf("expected %q, got %q", s, p.peek().s)
	}
	return nil
}

func (p *eparser) expr() (*CExpr, error) {
	// quantifiers have lowest precedence
	if t := p.peek(); t.k == "id" && (t.s == "forall" || t.s == "exists") {
		return p.quant()
	}
	return p.iff()
}

func (p *eparser) quant() (*CExpr, error) {
	kind := p.next().s
	var bs []Binder
	for {
		t := p.next()
		if t.k != "id" {
			return nil, fmt.Errorf("binder name expected")
		}
		ty, err := p.typeText()
		if err != nil {
			return nil, err
		}
		bs = append(bs, Binder{t.s, ty})
		if !p.accept(",") {
			break
		}
	}
	var trig []*CExpr
	if p.accept("{") {
		for {
			e, err := p.expr()
			if err != nil {
				return nil, err
			}
			trig = append(trig, e)
			if !p.accept(",") {
				break
			}
		}
		if err := p.expect("}"); err != nil {
			return nil, err
		}
	}
	if err := p.expect("::"); err != nil {
		return nil, err
	}
	body, err := p.expr()
	if err != nil {
		return nil, err
	}
	return &CExpr{Kind: kind, Binders: bs, Trig: trig, Args: []*CExpr{body}}, nil
}

func (p *eparser) typeText() (string, error) {
	s := ""
	for p.accept("*") {
		s += "*"
	}
	t := p.next()
	if t.k != "id" {
		return "", fmt.Errorf("type expected, got %q", t.s)
	}
	s += t.s
	for p.accept(".") {
		t2 := p.next()
		s += "." + t2.s
	}
	// explicit instantiation: Name[Arg, ...]
	if p.isOp("[") && p.p+1 < len(p.toks) && (p.toks[p.p+1].k == "id" || (p.toks[p.p+1].k == "op" && p.toks[p.p+1].s == "*")) {
		save := p.p
		p.next()
		var args []string
		ok := true
		for {
			a, err := p.typeText()
			if err != nil {
				ok = false
				break
			}
			args = append(args, a)
			if p.accept(",") {
				continue
			}
			break
		}
		if ok && p.accept("]") {
			s += "[" + strings.Join(args, ",") + "]"
		} else {
			p.p = save
		}
	}
	return s, nil
}

func (p *eparser) iff() (*CExpr, error) {
	l, err := p.implies()
	if err != nil {
		return nil, err
	}
	for p.accept("<==>") {
		r, err := p.implies()
		if err != nil {
			return nil, err
		}
		l = &CExpr{Kind: "bin", Op: "<==>", Args: []*CExpr{l, r}}
	}
	return l, nil
}

func (p *eparser) implies() (*CExpr, error) {
	l, err := p.ternary()
	if err != nil {
		return nil, err
	}
	if p.accept("==>") {
		var r *CExpr
		if t := p.peek(); t.k == "id" && (t.s == "forall" || t.s == "exists") {
			r, err = p.quant()
		} else {
			r, err = p.implies()
		}
		if err != nil {
			return nil, err
		}
		return &CExpr{Kind: "bin", Op: "==>", Args: []*CExpr{l, r}}, nil
	}
	return l, nil
}

func (p *eparser) ternary() (*CExpr, error) {
	c, err := p.or()
	if err != nil {
		return nil, err
	}
	if p.accept("?") {
		a, err := p.ternary()
		if err != nil {
			return nil, err
		}
		if err := p.expect(":"); err != nil {
			return nil, err
		}
		b, err := p.ternary()
		if err != nil {
			return nil, err
		}
		return &CExpr{Kind: "ite", Args: []*CExpr{c, a, b}}, nil
	}
	return c, nil
}

func (p *eparser) or() (*CExpr, error) {
	l, err := p.and()
	if err != nil {
		return nil, err
	}
	for p.accept("||") {
		r, err := p.and()
		if err != nil {
			return nil, err
		}
		l = &CExpr{Kind: "bin", Op: "||", Args: []*CExpr{l, r}}
	}
	return l, nil
}

func (p *eparser) and() (*CExpr, error) {
	l, err := p.cmp()
	if err != nil {
		return nil, err
	}
	for p.accept("&&") {
		var r *CExpr
		if t := p.peek(); t.k == "id" && (t.s == "forall" || t.s == "exists") {
			r, err = p.quant()
		} else {
			r, err = p.cmp()
		}
		if err != nil {
			return nil, err
		}
		l = &CExpr{Kind: "bin", Op: "&&", Args: []*CExpr{l, r}}
	}
	return l, nil
}

func (p *eparser) cmp() (*CExpr, error) {
	l, err := p.add()
	if err != nil {
		return nil, err
	}
	t := p.peek()
	if t.k == "op" {
		switch t.s {
		case "==", "!=", "<", "<=", ">", ">=":
			p.next()
			r, err := p.add()
			if err != nil {
				return nil, err
			}
			return &CExpr{Kind: "bin", Op: t.s, Args: []*CExpr{l, r}}, nil
		}
	}
	if t.k == "id" && t.s == "in" {
		p.next()
		r, err := p.add()
		if err != nil {
			return nil, err
		}
		return &CExpr{Kind: "bin", Op: "in", Args: []*CExpr{l, r}}, nil
	}
	return l, nil
}

func (p *eparser) add() (*CExpr, error) {
	l, err := p.mul()
	if err != nil {
		return nil, err
	}
	for {
		t := p.peek()
		if t.k == "op" && (t.s == "+" || t.s == "-") {
			p.next()
			r, err := p.mul()
			if err != nil {
				return nil, err
			}
			l = &CExpr{Kind: "bin", Op: t.s, Args: []*CExpr{l, r}}
		} else {
			return l, nil
		}
	}
}

func (p *eparser) mul() (*CExpr, error) {
	l, err := p.unary()
	if err != nil {
		return nil, err
	}
	for {
		t := p.peek()
		if t.k == "op" && (t.s == "*" || t.s == "/" || t.s == "%") {
			p.next()
			r, err := p.unary()
			if err != nil {
				return nil, err
			}
			l = &CExpr{Kind: "bin", Op: t.s, Args: []*CExpr{l, r}}
		} else {
			return l, nil
		}
	}
}

func (p *eparser) unary() (*CExpr, error) {
	if p.accept("!") {
		e, err := p.unary()
		if err != nil {
			return nil, err
		}
		return &CExpr{Kind: "un", Op: "!", Args: []*CExpr{e}}, nil
	}
	if p.accept("-") {
		e, err := p.unary()
		if err != nil {
			return nil, err
		}
		return &CExpr{Kind: "un", Op: "-", Args: []*CExpr{e}}, nil
	}
	return p.postfix()
}

func (p *eparser) args() ([]*CExpr, error) {
	var as []*CExpr
	if p.accept(")") {
		return as, nil
	}
	for {
		e, err := p.expr()
		if err != nil {
			return nil, err
		}
		as = append(as, e)
		if p.accept(")") {
			return as, nil
		}
		if err := p.expect(","); err != nil {
			return nil, err
		}
	}
}

func (p *eparser) postfix() (*CExpr, error) {
	e, err := p.primary()
	if err != nil {
		return nil, err
	}
	for {
		switch {
		case p.accept("."):
			if p.accept("$") {
				t := p.next()
				e = &CExpr{Kind: "sel", Name: "$" + t.s, Args: []*CExpr{e}}
			} else {
				t := p.next()
				if t.k != "id" {
					return nil, fmt.Errorf("field name expected after '.'")
				}
				e = &CExpr{Kind: "sel", Name: t.s, Args: []*CExpr{e}}
			}
		case p.accept("["):
			i, err := p.expr()
			if err != nil {
				return nil, err
			}
			if err := p.expect("]"); err != nil {
				return nil, err
			}
			e = &CExpr{Kind: "index", Args: []*CExpr{e, i}}
		case p.isOp("(") && e.Kind == "ident":
			p.next()
			as, err := p.args()
			if err != nil {
				return nil, err
			}
			if e.Name == "old" {
				if len(as) != 1 {
					return nil, fmt.Errorf("old takes one argument")
				}
				e = &CExpr{Kind: "old", Args: as}
			} else {
				e = &CExpr{Kind: "call", Name: e.Name, Args: as}
			}
		default:
			return e, nil
		}
	}
}

func (p *eparser) primary() (*CExpr, error) {
	t := p.next()
	switch t.k {
	case "int":
		return &CExpr{Kind: "int", Lit: t.s}, nil
	case "str":
		return &CExpr{Kind: "str", Lit: t.s}, nil
	case "id":
		if t.s == "true" || t.s == "false" {
			return &CExpr{Kind: "ident", Name: t.s}, nil
		}
		return &CExpr{Kind: "ident", Name: t.s}, nil
	case "op":
		switch t.s {
		case "(":
			e, err := p.expr()
			if err != nil {
				return nil, err
			}
			if err := p.expect(")"); err != nil {
				return nil, err
			}
			return e, nil
		case "*":
			// a pointer type used as an argument, e.g. $tid(*enqItem)
			p.p--
			ty, err := p.typeText()
			if err != nil {
				return nil, err
			}
			return &CExpr{Kind: "ident", Name: ty}, nil
		case "$":
			n := p.next()
			e := &CExpr{Kind: "ghost", Name: n.s}
			if p.isOp("(") {
				p.next()
				as, err := p.args()
				if err != nil {
					return nil, err
				}
				e = &CExpr{Kind: "call", Name: "$" + n.s, Args: as}
			}
			return e, nil
		case "@":
			n := p.next()
			e := &CExpr{Kind: "spec", Name: n.s}
			if p.isOp("(") {
				p.next()
				as, err := p.args()
				if err != nil {
					return nil, err
				}
				e.Args = as
			}
			return e, nil
		}
	}
	return nil, fmt.Errorf("unexpected token %q", t.s)
}
