package main

import (
	"context"
	"encoding/json"
	"fmt"
	"go/types"
	"os"
	"os/exec"
	"path/filepath"
	"sort"
	"strings"
	"time"

	"golang.org/x/tools/go/ssa"
)

// Replay: a refuted obligation (solver answered sat) is turned into a run of the real function.
//
//  1. The solver's model is queried term by term ((get-value ...), values pinned as they are read) for the function's parameters and,
//     through the entry-state heap arrays, for the objects reachable from them.
//  2. A Go test is generated *inside the function's package* that rebuilds those inputs (reflect + unsafe for unexported fields and
//     atomics), re-checks the contract's preconditions on them, calls the real function under recover, and evaluates the violated
//     postcondition (translated from the contract expression) on the real results. For nil/bounds/div obligations the observation is
//     the run-time panic itself.
//  3. The test is run against /repo with `go test -overlay` (nothing is written into the repository).
//
// The replay confirms a violation only when the real run misbehaves; whenever an input cannot be rebuilt (ghost state, interface or
// function values, channels, quantified contracts) the answer is "no failing input found" and the VIOLATION line says so.

type reifyAbort struct{ msg string }

type reifier struct {
	env     *Env
	vc      *VC
	o       *Obligation
	base    string // query text without the final (check-sat)
	backend solverSpec
	cache   map[string]string
	pins    []string
	objs    map[string]string
	setup   []string
	imports map[string]bool
	pkg     *types.Package
	n       int
	tpVals  map[string]int // model value of an uninterpreted element sort -> int
	work    string
	queries int
}

func (r *reifier) abort(f string, a ...interface{}) { panic(reifyAbort{fmt.Sprintf(f, a...)}) }

func replayObligation(env *Env, o *Obligation, rp *replayRecord) (confirmed bool, detail string) {
	defer func() {
		if x := recover(); x != nil {
			if a, ok := x.(reifyAbort); ok {
				confirmed, detail = false, "no concrete input built: "+a.msg
				return
			}
			if u, ok := x.(unsupported); ok {
				confirmed, detail = false, "no concrete input built: "+u.msg
				return
			}
			panic(x)
		}
	}()
	if o.vc == nil {
		return false, "no verification context kept for this obligation"
	}
	vc := o.vc
	fn := vc.fn
	if fn == nil || fn.Parent() != nil {
		return false, "closures are not replayed (their captured variables cannot be rebuilt)"
	}
	if strings.Contains(o.Name, "@in:") && o.Kind == "post" {
		return false, "obligation inside an inlined callee"
	}
	switch o.Kind {
	case "post", "nil", "bounds", "div":
	default:
		return false, "obligation kind " + o.Kind + " has no run-time observation (only post/nil/bounds/div are replayed)"
	}
	work, _ := os.MkdirTemp("", "vq-replay-")
	defer os.RemoveAll(work)
	var be solverSpec
	for _, s := range solvers {
		if s.name == o.Backend {
			be = s
		}
	}
	if be.name == "" {
		be = solvers[0]
	}
	q := vc.buildQuery(o, vc.heap0All(), "", true)
	q = strings.TrimSuffix(strings.TrimSpace(q), "(check-sat)")
	r := &reifier{env: env, vc: vc, o: o, base: q, backend: be, cache: map[string]string{}, objs: map[string]string{}, imports: map[string]bool{"testing": true, "fmt": true, "reflect": true, "unsafe": true, "math/big": true},
		pkg: fn.Pkg.Pkg, tpVals: map[string]int{}, work: work}
	src := r.generate()
	rp.ReplayTest = src
	rel, _ := filepath.Rel(env.w.RepoDir, filepath.Dir(env.w.Prog.Fset.Position(fn.Pos()).Filename))
	rp.ReplayPkg = rel
	ok, out := runReplayTestIn(env.w.RepoDir, rel, src)
	return ok, out
}

// ---------------------------------------------------------------- model access

func (r *reifier) ev(t Term) string {
	if v, ok := r.cache[t.S]; ok {
		return v
	}
	if isLiteral(t.S) {
		return t.S
	}
	r.queries++
	if r.queries > 400 {
		r.abort("input too large (more than 400 model queries)")
	}
	file := filepath.Join(r.work, fmt.Sprintf("m%04d.smt2", r.queries))
	text := r.base + "\n" + strings.Join(r.pins, "\n") + "\n(check-sat)\n(get-value (" + t.S + "))\n"
	os.WriteFile(file, []byte(text), 0o644)
	res := runSolver(context.Background(), r.backend, file, 20)
	lines := strings.SplitN(strings.TrimSpace(res.out), "\n", 2)
	if len(lines) < 2 || strings.TrimSpace(lines[0]) != "sat" {
		r.abort("model query for %s did not return sat (%s)", t.S, firstLines(res.out, 2))
	}
	sx, _ := parseSexpr(lines[1])
	// ((term value))
	if sx == nil || len(sx.list) != 1 || len(sx.list[0].list) != 2 {
		r.abort("cannot parse get-value answer %q", lines[1])
	}
	v := sexprValue(sx.list[0].list[1])
	r.cache[t.S] = v
	if t.Sort == SInt || t.Sort == SBool {
		r.pins = append(r.pins, "(assert (= "+t.S+" "+smtLit(v, t.Sort)+"))")
	}
	return v
}

func isLiteral(s string) bool {
	if s == "true" || s == "false" {
		return true
	}
	if s == "" {
		return false
	}
	for _, c := range s {
		if c < '0' || c > '9' {
			return false
		}
	}
	return true
}

func smtLit(v, sort string) string {
	if sort == SInt && strings.HasPrefix(v, "-") {
		return "(- " + v[1:] + ")"
	}
	return v
}

type sexpr struct {
	atom string
	list []*sexpr
}

func parseSexpr(s string) (*sexpr, string) {
	s = strings.TrimSpace(s)
	if s == "" {
		return nil, ""
	}
	if s[0] == '(' {
		out := &sexpr{list: []*sexpr{}}
		s = s[1:]
		for {
			s = strings.TrimSpace(s)
			if s == "" {
				return out, ""
			}
			if s[0] == ')' {
				return out, s[1:]
			}
			var c *sexpr
			c, s = parseSexpr(s)
			if c == nil {
				return out, s
			}
			out.list = append(out.list, c)
		}
	}
	if s[0] == '|' {
		j := strings.Index(s[1:], "|")
		return &sexpr{atom: s[:j+2]}, s[j+2:]
	}
	i := 0
	for i < len(s) && !strings.ContainsRune(" \t\n()", rune(s[i])) {
		i++
	}
	return &sexpr{atom: s[:i]}, s[i:]
}

// sexprValue: canonical text of a scalar model value: integers as decimal with sign, booleans, reals as a/b, other atoms verbatim.
func sexprValue(x *sexpr) string {
	if x.list == nil {
		return x.atom
	}
	if len(x.list) == 2 && x.list[0].atom == "-" {
		return "-" + sexprValue(x.list[1])
	}
	if len(x.list) == 3 && x.list[0].atom == "/" {
		return sexprValue(x.list[1]) + "/" + sexprValue(x.list[2])
	}
	var parts []string
	for _, c := range x.list {
		parts = append(parts, sexprValue(c))
	}
	return "(" + strings.Join(parts, " ") + ")"
}

// ---------------------------------------------------------------- Go types with type parameters instantiated by int

func (r *reifier) goType(t types.Type) string {
	t = types.Unalias(t)
	switch x := t.(type) {
	case *types.TypeParam:
		if it, ok := x.Constraint().Underlying().(*types.Interface); ok && !types.Satisfies(types.Typ[types.Int], it) {
			// a type parameter constrained by an interface (JobType iJob[T]) is instantiated with that interface itself
			if n, ok := types.Unalias(x.Constraint()).(*types.Named); ok && it.IsMethodSet() {
				return r.goType(n)
			}
			r.abort("type parameter %s cannot be instantiated with int", x)
		}
		return "int"
	case *types.Basic:
		if x.Kind() == types.UnsafePointer {
			r.imports["unsafe"] = true
			return "unsafe.Pointer"
		}
		return x.Name()
	case *types.Pointer:
		return "*" + r.goType(x.Elem())
	case *types.Slice:
		return "[]" + r.goType(x.Elem())
	case *types.Array:
		return fmt.Sprintf("[%d]%s", x.Len(), r.goType(x.Elem()))
	case *types.Named:
		name := x.Obj().Name()
		if p := x.Obj().Pkg(); p != nil && p != r.pkg {
			if !x.Obj().Exported() {
				r.abort("unexported type %s of another package", x)
			}
			r.imports[p.Path()] = true
			name = p.Name() + "." + name
		}
		if ta := x.TypeArgs(); ta != nil && ta.Len() > 0 {
			var as []string
			for i := 0; i < ta.Len(); i++ {
				as = append(as, r.goType(ta.At(i)))
			}
			name += "[" + strings.Join(as, ", ") + "]"
		} else if tp := x.TypeParams(); tp != nil && tp.Len() > 0 {
			var as []string
			for i := 0; i < tp.Len(); i++ {
				as = append(as, r.goType(tp.At(i)))
			}
			name += "[" + strings.Join(as, ", ") + "]"
		}
		return name
	case *types.Interface:
		if x.NumMethods() == 0 && x.NumEmbeddeds() == 0 {
			return "any"
		}
	case *types.Signature, *types.Chan, *types.Map:
		return types.TypeString(t, func(p *types.Package) string {
			if p == r.pkg {
				return ""
			}
			r.imports[p.Path()] = true
			return p.Name()
		})
	}
	r.abort("type %s is not supported by the replay", t)
	return ""
}

func (r *reifier) fresh(prefix string) string {
	r.n++
	return fmt.Sprintf("%s%d", prefix, r.n)
}

// scalarGo: Go literal (as an expression of type gt) for the model value of scalar term tm of Go type t.
func (r *reifier) scalarGo(tm Term, t types.Type) (code string, isNilLike bool) {
	t = types.Unalias(t)
	if tp, ok := t.(*types.TypeParam); ok {
		_ = tp
		v := r.ev(tm)
		if tm.Sort == SInt || tm.Sort == SBool {
			return v, false
		}
		return fmt.Sprint(r.tpValue(tm.Sort, v)), false
	}
	if n, ok := t.(*types.Named); ok {
		if _, ok := specialScalarSort(n); ok {
			switch qualifiedName(n) {
			case "time.Duration":
				r.imports["time"] = true
				return "time.Duration(" + r.ev(tm) + ")", false
			case "sync.WaitGroup", "time.Time", "sync/atomic.Value":
				return "", true // left at its zero value
			}
			return r.ev(tm), false // atomic integer / bool: stored through Store by vqSet
		}
	}
	switch u := t.Underlying().(type) {
	case *types.Basic:
		v := r.ev(tm)
		switch {
		case u.Info()&types.IsBoolean != 0:
			return v, false
		case u.Info()&types.IsInteger != 0:
			return r.goType(t) + "(" + v + ")", false
		case u.Info()&types.IsString != 0:
			return fmt.Sprintf("%q", r.strValue(tm, v)), false
		case u.Info()&types.IsFloat != 0:
			if strings.Contains(v, "/") {
				return r.goType(t) + "(" + strings.Replace(v, "/", ".0/", 1) + ".0)", false
			}
			return r.goType(t) + "(" + v + ")", false
		}
	case *types.Pointer:
		id := r.ev(tm)
		if id == "0" {
			return "nil", true
		}
		return r.object(u.Elem(), id), false
	case *types.Interface, *types.Signature, *types.Chan, *types.Map:
		v := r.ev(tm)
		if v == "0" {
			return "nil", true
		}
		r.abort("the failing input needs a non-nil %s value, which the replay cannot build", t)
	}
	r.abort("scalar of type %s is not supported by the replay", t)
	return "", false
}

func (r *reifier) tpValue(sort, v string) int {
	key := sort + "=" + v
	if n, ok := r.tpVals[key]; ok {
		return n
	}
	// the zero value of the sort maps to 0, every other abstract value to a distinct positive int
	if z, ok := r.vc.strLits["zero."+sort]; ok && z == sort {
		zv := r.ev(Term{smtIdent("zero." + sort), sort})
		if zv == v {
			r.tpVals[key] = 0
			return 0
		}
	}
	n := 1
	for _, x := range r.tpVals {
		if x >= n {
			n = x + 1
		}
	}
	r.tpVals[key] = n
	return n
}

func (r *reifier) strValue(tm Term, v string) string {
	for name, kind := range r.vc.strLits {
		if strings.HasPrefix(kind, "Str:") {
			lit := strings.TrimPrefix(kind, "Str:")
			if r.ev(Term{smtIdent(name), "Str"}) == v {
				return lit
			}
		}
	}
	return "s" + strings.Map(func(c rune) rune {
		if c >= '0' && c <= '9' {
			return c
		}
		return -1
	}, v)
}

func (r *reifier) heap0(key string) Term {
	if t, ok := r.vc.heap0All()[key]; ok {
		return t
	}
	return Term{}
}

// object: a variable holding *T for the entry-state object with reference id.
func (r *reifier) object(elem types.Type, id string) string {
	elem = types.Unalias(elem)
	key := typeRepr(elem) + "#" + id
	if v, ok := r.objs[key]; ok {
		return v
	}
	if len(r.objs) > 40 {
		r.abort("input too large (more than 40 objects)")
	}
	v := r.fresh("o")
	r.objs[key] = v
	r.setup = append(r.setup, fmt.Sprintf("%s := new(%s)", v, r.goType(elem)))
	idT := Term{id, SInt}
	if strings.HasPrefix(id, "-") {
		idT = Term{"(- " + id[1:] + ")", SInt}
	}
	switch classify(elem) {
	case kStruct:
		if refEmbeddedRoot(elem) {
			r.abort("objects of type %s (self-referential sentinel) are not rebuilt by the replay", elem)
		}
		r.fillStruct(v, rootName(elem), elem, "", idT)
	case kScalar:
		h := r.heap0("C:" + typeRepr(elem))
		if h.S != "" {
			code, skip := r.scalarGo(tSelect(h, idT), elem)
			if !skip {
				r.setup = append(r.setup, fmt.Sprintf("*%s = %s", v, code))
			}
		}
	default:
		r.abort("pointer to %s is not supported by the replay", elem)
	}
	return v
}

func refEmbeddedRoot(t types.Type) bool {
	if n, ok := types.Unalias(t).(*types.Named); ok {
		return qualifiedName(n) == "linkedlist.List" || qualifiedName(n) == "linkedlist.Node"
	}
	return false
}

func (r *reifier) fillStruct(objVar, root string, t types.Type, prefix string, id Term) {
	st, ok := resolveTP(t).Underlying().(*types.Struct)
	if !ok {
		return
	}
	for i := 0; i < st.NumFields(); i++ {
		f := st.Field(i)
		path := joinPath(prefix, f.Name())
		ft := f.Type()
		switch classify(ft) {
		case kLock, kOpaque:
			continue
		case kStruct:
			r.fillStruct(objVar, root, ft, path, id)
		case kSlice:
			harr, hlen, hcap := r.heap0("F:"+root+"."+path+".#arr"), r.heap0("F:"+root+"."+path+".#len"), r.heap0("F:"+root+"."+path+".#cap")
			if harr.S == "" || hlen.S == "" {
				continue // never read on this path
			}
			capT := Term{}
			if hcap.S != "" {
				capT = tSelect(hcap, id)
			}
			code := r.slice(ft, tSelect(harr, id), tSelect(hlen, id), capT)
			r.setup = append(r.setup, fmt.Sprintf("vqSet(%s, %q, %s)", objVar, path, code))
		case kScalar:
			h := r.heap0("F:" + root + "." + path)
			if h.S == "" {
				continue // the path never touched this field: any value will do, keep the zero value
			}
			code, skip := r.scalarGo(tSelect(h, id), ft)
			if skip {
				continue
			}
			r.setup = append(r.setup, fmt.Sprintf("vqSet(%s, %q, %s)", objVar, path, code))
		}
	}
}

// slice: expression of the slice type t for the header (arr, len, cap) in the entry heap.
func (r *reifier) slice(t types.Type, arr, ln, cp Term) string {
	el := sliceElem(t)
	a := r.ev(arr)
	n := r.ev(ln)
	var nn, cc int
	fmt.Sscanf(n, "%d", &nn)
	cc = nn
	if cp.S != "" {
		fmt.Sscanf(r.ev(cp), "%d", &cc)
	}
	if a == "0" && nn == 0 {
		return r.goType(t) + "(nil)"
	}
	if nn < 0 || nn > 64 || cc < nn || cc > 1<<16 {
		r.abort("slice of length %d / capacity %d is outside what the replay rebuilds (len <= 64, cap <= 65536)", nn, cc)
	}
	key := "slice:" + typeRepr(el) + "#" + a
	if v, ok := r.objs[key]; ok {
		return fmt.Sprintf("%s[:%d:%d]", v, nn, cc)
	}
	v := r.fresh("s")
	r.objs[key] = v
	r.setup = append(r.setup, fmt.Sprintf("%s := make(%s, %d, %d)", v, r.goType(t), cc, cc))
	aT := Term{a, SInt}
	switch classify(el) {
	case kScalar:
		h := r.heap0("E:" + typeRepr(el))
		if h.S != "" {
			for i := 0; i < nn; i++ {
				code, skip := r.scalarGo(tSelect(tSelect(h, aT), tInt(int64(i))), el)
				if !skip && code != "0" && code != "nil" {
					r.setup = append(r.setup, fmt.Sprintf("%s[%d] = %s", v, i, code))
				}
			}
		}
	default:
		r.abort("slice of %s is not supported by the replay", el)
	}
	return fmt.Sprintf("%s[:%d:%d]", v, nn, cc)
}

// argument: Go expression for a parameter value.
func (r *reifier) argument(v Val, t types.Type) string {
	switch x := v.(type) {
	case TV:
		code, _ := r.scalarGo(x.T, t)
		return code
	case SliceV:
		return r.slice(t, x.Arr, x.Len, x.Cap)
	case StructV:
		r.abort("struct-valued parameter")
	}
	r.abort("parameter of type %s is not supported by the replay", t)
	return ""
}

// ---------------------------------------------------------------- contract expression -> Go

type goExpr struct {
	code string
	cat  string // int | bool | any
	typ  types.Type
}

type trEnv struct {
	r     *reifier
	names map[string]goExpr
	olds  *[]string
	inOld bool
	pre   bool // translating a precondition: old() is the identity
}

func catOf(t types.Type) string {
	t = types.Unalias(t)
	if _, ok := t.(*types.TypeParam); ok {
		return "int"
	}
	if n, ok := t.(*types.Named); ok {
		if s, ok := specialScalarSort(n); ok {
			if s == SBool {
				return "bool"
			}
			return "int"
		}
	}
	if b, ok := t.Underlying().(*types.Basic); ok {
		if b.Info()&types.IsInteger != 0 {
			return "int"
		}
		if b.Info()&types.IsBoolean != 0 {
			return "bool"
		}
	}
	return "any"
}

func wrap(code string, t types.Type) goExpr {
	switch catOf(t) {
	case "int":
		return goExpr{"vqBig(" + code + ")", "int", t}
	case "bool":
		return goExpr{"vqBool(" + code + ")", "bool", t}
	}
	return goExpr{"any(" + code + ")", "any", t}
}

var mathConsts = map[string]string{"MaxInt": "9223372036854775807", "MinInt": "-9223372036854775808", "MaxInt64": "9223372036854775807", "MaxUint64": "18446744073709551615",
	"MaxUint32": "4294967295", "MaxInt32": "2147483647", "MaxUint16": "65535", "MaxUint8": "255"}

func (te *trEnv) tr(e *CExpr) goExpr {
	r := te.r
	switch e.Kind {
	case "int":
		return goExpr{"vqLit(\"" + e.Lit + "\")", "int", types.Typ[types.Int]}
	case "ident":
		if g, ok := te.names[e.Name]; ok {
			return g
		}
		switch e.Name {
		case "nil":
			return goExpr{"nil", "nil", nil}
		case "true", "false":
			return goExpr{e.Name, "bool", types.Typ[types.Bool]}
		}
		if v, ok := mathConsts[e.Name]; ok {
			return goExpr{"vqLit(\"" + v + "\")", "int", types.Typ[types.Int]}
		}
		if obj := r.pkg.Scope().Lookup(e.Name); obj != nil {
			switch obj.(type) {
			case *types.Const, *types.Var:
				return wrap(e.Name, obj.Type())
			}
		}
		r.abort("contract name %q has no run-time counterpart", e.Name)
	case "sel":
		b := te.tr(e.Args[0])
		if b.typ == nil {
			r.abort("selection on untyped expression %s", e.Args[0])
		}
		bt := types.Unalias(b.typ)
		if p, ok := bt.Underlying().(*types.Pointer); ok {
			bt = p.Elem()
		}
		st, ok := resolveTP(bt).Underlying().(*types.Struct)
		if !ok {
			r.abort("selection %s on non-struct", e)
		}
		for i := 0; i < st.NumFields(); i++ {
			if st.Field(i).Name() == e.Name {
				return wrap(fmt.Sprintf("vqGet(%s, %q)", b.code, e.Name), st.Field(i).Type())
			}
		}
		r.abort("no field %s in %s", e.Name, bt)
	case "old":
		if te.pre {
			return te.tr(e.Args[0])
		}
		sub := *te
		sub.inOld = true
		g := sub.tr(e.Args[0])
		v := r.fresh("old")
		*te.olds = append(*te.olds, fmt.Sprintf("%s := %s", v, g.code))
		return goExpr{v, g.cat, g.typ}
	case "un":
		a := te.tr(e.Args[0])
		switch e.Op {
		case "!":
			return goExpr{"!(" + a.code + ")", "bool", a.typ}
		case "-":
			return goExpr{"vqNeg(" + a.code + ")", "int", a.typ}
		}
	case "ite":
		c, a, b := te.tr(e.Args[0]), te.tr(e.Args[1]), te.tr(e.Args[2])
		if a.cat == "int" && b.cat == "int" {
			return goExpr{fmt.Sprintf("vqIte(%s, %s, %s)", c.code, a.code, b.code), "int", a.typ}
		}
		r.abort("conditional expression of kind %s", a.cat)
	case "call":
		switch e.Name {
		case "max", "min":
			if len(e.Args) == 2 {
				a, b := te.tr(e.Args[0]), te.tr(e.Args[1])
				if a.cat == "int" && b.cat == "int" {
					return goExpr{fmt.Sprintf("vq%s(%s, %s)", strings.Title(e.Name), a.code, b.code), "int", a.typ}
				}
			}
			r.abort("%s of non-integers", e.Name)
		case "len", "cap":
			a := te.tr(e.Args[0])
			return goExpr{fmt.Sprintf("vq%s(%s)", strings.Title(e.Name), a.code), "int", types.Typ[types.Int]}
		}
		if cp := r.vc.cs.Preds[e.Name]; cp != nil {
			if len(cp.Formals) != len(e.Args) {
				r.abort("pred %s arity", e.Name)
			}
			sub := &trEnv{r: r, names: map[string]goExpr{}, olds: te.olds, inOld: te.inOld, pre: te.pre}
			for k, v := range te.names {
				sub.names[k] = v
			}
			for i, f := range cp.Formals {
				sub.names[f.Name] = te.tr(e.Args[i])
			}
			body, err := cp.Body.expr()
			if err != nil {
				r.abort("%v", err)
			}
			return sub.tr(body)
		}
		r.abort("contract function %s has no run-time counterpart", e.Name)
	case "index":
		a, i := te.tr(e.Args[0]), te.tr(e.Args[1])
		if a.typ == nil {
			r.abort("index on untyped expression")
		}
		el := sliceElem(a.typ)
		if el == nil {
			r.abort("index on non-slice %s", a.typ)
		}
		return wrap(fmt.Sprintf("vqIndex(%s, %s)", a.code, i.code), el)
	case "bin":
		if e.Op == "==>" {
			a, b := te.tr(e.Args[0]), te.tr(e.Args[1])
			return goExpr{"(!(" + a.code + ") || (" + b.code + "))", "bool", nil}
		}
		a, b := te.tr(e.Args[0]), te.tr(e.Args[1])
		switch e.Op {
		case "&&", "||":
			return goExpr{"((" + a.code + ") " + e.Op + " (" + b.code + "))", "bool", nil}
		case "+", "-", "*", "/", "%":
			if a.cat != "int" || b.cat != "int" {
				r.abort("arithmetic on non-integers in %s", e)
			}
			fn := map[string]string{"+": "vqAdd", "-": "vqSub", "*": "vqMul", "/": "vqQuo", "%": "vqRem"}[e.Op]
			return goExpr{fmt.Sprintf("%s(%s, %s)", fn, a.code, b.code), "int", a.typ}
		case "<", "<=", ">", ">=":
			if a.cat != "int" || b.cat != "int" {
				r.abort("ordering on non-integers in %s", e)
			}
			return goExpr{fmt.Sprintf("(%s.Cmp(%s) %s 0)", a.code, b.code, e.Op), "bool", nil}
		case "==", "!=":
			var c string
			switch {
			case a.cat == "int" && b.cat == "int":
				c = fmt.Sprintf("(%s.Cmp(%s) == 0)", a.code, b.code)
			case a.cat == "bool" && b.cat == "bool":
				c = fmt.Sprintf("((%s) == (%s))", a.code, b.code)
			case a.cat == "nil":
				c = fmt.Sprintf("vqIsNil(%s)", b.code)
			case b.cat == "nil":
				c = fmt.Sprintf("vqIsNil(%s)", a.code)
			case a.cat == "any" && b.cat == "any":
				c = fmt.Sprintf("vqSame(%s, %s)", a.code, b.code)
			default:
				r.abort("comparison of %s with %s in %s", a.cat, b.cat, e)
			}
			if e.Op == "!=" {
				c = "!" + c
			}
			return goExpr{c, "bool", nil}
		}
	}
	r.abort("contract expression %s has no run-time counterpart (ghost state, quantifier or specification function)", e)
	return goExpr{}
}

// ---------------------------------------------------------------- test generation

func (r *reifier) generate() string {
	vc, fn, o := r.vc, r.vc.fn, r.o
	if len(vc.rootParams) != len(fn.Params) {
		r.abort("parameter values were not recorded")
	}
	names := map[string]goExpr{}
	var args []string
	var inputDesc []string
	for i, p := range fn.Params {
		code := r.argument(vc.rootParams[i], p.Type())
		v := "a_" + p.Name()
		r.setup = append(r.setup, fmt.Sprintf("var %s %s = %s", v, r.goType(p.Type()), code), "_ = "+v)
		names[p.Name()] = wrap(v, p.Type())
		args = append(args, v)
		inputDesc = append(inputDesc, p.Name()+"="+code)
	}
	// preconditions on the concrete input
	var olds []string
	var pre []string
	if vc.fc != nil {
		for _, c := range vc.fc.clauses("requires") {
			if c.Mode != "" && c.Mode != vc.mode {
				continue
			}
			e, err := c.expr()
			if err != nil {
				r.abort("%v", err)
			}
			te := &trEnv{r: r, names: names, olds: &olds, pre: true}
			g := te.tr(e)
			pre = append(pre, fmt.Sprintf("if !(%s) { fmt.Println(%q); return }", g.code, "REPLAY-PRECONDITION-NOT-MET: "+c.Text))
		}
	}
	// call
	res := fn.Signature.Results()
	var rvars []string
	var rdecl []string
	for i := 0; i < res.Len(); i++ {
		v := fmt.Sprintf("r%d", i)
		rvars = append(rvars, v)
		rdecl = append(rdecl, fmt.Sprintf("var %s %s", v, r.goType(res.At(i).Type())), "_ = "+v)
		g := wrap(v, res.At(i).Type())
		names[fmt.Sprintf("result%d", i)] = g
		if i == 0 {
			names["result"] = g
		}
	}
	callee := fn.Name()
	callArgs := args
	if fn.Signature.Recv() != nil {
		callee = args[0] + "." + fn.Name()
		callArgs = args[1:]
	} else if tps := fn.TypeParams(); tps != nil && tps.Len() > 0 {
		var as []string
		for i := 0; i < tps.Len(); i++ {
			as = append(as, r.goType(tps.At(i)))
		}
		callee += "[" + strings.Join(as, ", ") + "]"
	}
	call := callee + "(" + strings.Join(callArgs, ", ") + ")"
	if fn.Signature.Variadic() {
		call = callee + "(" + strings.Join(callArgs, ", ") + "...)"
	}
	if len(rvars) > 0 {
		call = strings.Join(rvars, ", ") + " = " + call
	}
	// the violated clause
	if len(r.objs) > 0 {
		inputDesc = append(inputDesc, "where "+strings.Join(r.setupSummary(), "; "))
	}
	var check string
	switch o.Kind {
	case "post":
		label := strings.TrimPrefix(o.Name[strings.Index(o.Name, "#post:")+6:], "")
		var clause *Clause
		for i, c := range vc.fc.clauses("ensures") {
			l := clauseLabel(c, i)
			if label == l || strings.HasPrefix(label, l+".") {
				clause = c
			}
		}
		if clause == nil {
			r.abort("ensures clause %q not found", label)
		}
		e, err := clause.expr()
		if err != nil {
			r.abort("%v", err)
		}
		te := &trEnv{r: r, names: names, olds: &olds}
		g := te.tr(e)
		check = fmt.Sprintf("if panicked != nil { fmt.Println(\"REPLAY-NOT-CONFIRMED: the call panicked:\", panicked); return }\n\tif !(%s) { fmt.Printf(\"REPLAY-CONFIRMED: postcondition [%%s] is false after the real call; inputs: %%s; results: %%v\\n\", %q, %q, []any{%s}); t.FailNow() }",
			g.code, clause.Text, strings.Join(inputDesc, ", "), strings.Join(rvars, ", "))
	default:
		check = fmt.Sprintf("if panicked != nil { fmt.Printf(\"REPLAY-CONFIRMED: the real call panicked: %%v; inputs: %%s\\n\", panicked, %q); t.FailNow() }", strings.Join(inputDesc, ", "))
	}
	var b strings.Builder
	b.WriteString("// Code generated by vq (replay of " + o.Name + "). DO NOT EDIT.\n")
	b.WriteString("package " + r.pkg.Name() + "\n\nimport (\n")
	for _, p := range sortedKeysBool(r.imports) {
		b.WriteString(fmt.Sprintf("\t%q\n", p))
	}
	b.WriteString(")\n\n")
	b.WriteString("func TestVQReplay(t *testing.T) {\n")
	for _, s := range r.setup {
		b.WriteString("\t" + s + "\n")
	}
	for _, s := range pre {
		b.WriteString("\t" + s + "\n")
	}
	for _, s := range olds {
		b.WriteString("\t" + s + "\n\t_ = " + strings.SplitN(s, " ", 2)[0] + "\n")
	}
	for _, s := range rdecl {
		b.WriteString("\t" + s + "\n")
	}
	b.WriteString("\tpanicked := vqCall(func() { " + call + " })\n")
	b.WriteString("\t" + check + "\n")
	b.WriteString("\tfmt.Println(\"REPLAY-NOT-CONFIRMED: the real run satisfies the clause on this input\")\n}\n\n")
	b.WriteString(replayHelpers)
	return b.String()
}

// setupSummary: the object-construction statements, as the description of the failing input.
func (r *reifier) setupSummary() []string {
	var out []string
	for _, s := range r.setup {
		if strings.HasPrefix(s, "_ = ") || strings.HasPrefix(s, "var a_") {
			continue
		}
		out = append(out, s)
		if len(out) >= 24 {
			out = append(out, "...")
			break
		}
	}
	return out
}

func sortedKeysBool(m map[string]bool) []string {
	var ks []string
	for k := range m {
		ks = append(ks, k)
	}
	sort.Strings(ks)
	return ks
}

const replayHelpers = `
var _ = unsafe.Pointer(nil)

func vqCall(f func()) (p any) {
	defer func() { p = recover() }()
	f()
	return nil
}

func vqField(v reflect.Value, path string) reflect.Value {
	for v.Kind() == reflect.Ptr || v.Kind() == reflect.Interface {
		v = v.Elem()
	}
	start := 0
	for i := 0; i <= len(path); i++ {
		if i == len(path) || path[i] == '.' {
			name := path[start:i]
			start = i + 1
			for v.Kind() == reflect.Ptr || v.Kind() == reflect.Interface {
				v = v.Elem()
			}
			f := v.FieldByName(name)
			if !f.IsValid() {
				panic("vq replay: no field " + name)
			}
			v = reflect.NewAt(f.Type(), unsafe.Pointer(f.UnsafeAddr())).Elem()
		}
	}
	return v
}

func vqSet(obj any, path string, val any) {
	f := vqField(reflect.ValueOf(obj), path)
	if m := f.Addr().MethodByName("Store"); m.IsValid() && f.Kind() == reflect.Struct {
		m.Call([]reflect.Value{reflect.ValueOf(val).Convert(m.Type().In(0))})
		return
	}
	if val == nil {
		f.Set(reflect.Zero(f.Type()))
		return
	}
	f.Set(reflect.ValueOf(val).Convert(f.Type()))
}

func vqGet(obj any, name string) any {
	if vqIsNil(obj) {
		panic("vq replay: field of nil")
	}
	f := vqField(reflect.ValueOf(obj), name)
	if f.Kind() == reflect.Struct {
		if m := f.Addr().MethodByName("Load"); m.IsValid() {
			return m.Call(nil)[0].Interface()
		}
		return f.Addr().Interface()
	}
	return f.Interface()
}

func vqBig(x any) *big.Int {
	if b, ok := x.(*big.Int); ok {
		return b
	}
	v := reflect.ValueOf(x)
	switch v.Kind() {
	case reflect.Int, reflect.Int8, reflect.Int16, reflect.Int32, reflect.Int64:
		return big.NewInt(v.Int())
	case reflect.Uint, reflect.Uint8, reflect.Uint16, reflect.Uint32, reflect.Uint64, reflect.Uintptr:
		return new(big.Int).SetUint64(v.Uint())
	}
	panic(fmt.Sprintf("vq replay: %T is not an integer", x))
}

func vqBool(x any) bool { return reflect.ValueOf(x).Bool() }

func vqLit(s string) *big.Int { b, _ := new(big.Int).SetString(s, 10); return b }
func vqAdd(a, b *big.Int) *big.Int { return new(big.Int).Add(a, b) }
func vqSub(a, b *big.Int) *big.Int { return new(big.Int).Sub(a, b) }
func vqMul(a, b *big.Int) *big.Int { return new(big.Int).Mul(a, b) }
func vqQuo(a, b *big.Int) *big.Int { return new(big.Int).Quo(a, b) }
func vqRem(a, b *big.Int) *big.Int { return new(big.Int).Rem(a, b) }
func vqNeg(a *big.Int) *big.Int { return new(big.Int).Neg(a) }
func vqIte(c bool, a, b *big.Int) *big.Int {
	if c {
		return a
	}
	return b
}
func vqMax(a, b *big.Int) *big.Int {
	if a.Cmp(b) >= 0 {
		return a
	}
	return b
}
func vqMin(a, b *big.Int) *big.Int {
	if a.Cmp(b) <= 0 {
		return a
	}
	return b
}
func vqLen(x any) *big.Int { return big.NewInt(int64(reflect.ValueOf(x).Len())) }
func vqCap(x any) *big.Int { return big.NewInt(int64(reflect.ValueOf(x).Cap())) }
func vqIndex(x any, i *big.Int) any { return reflect.ValueOf(x).Index(int(i.Int64())).Interface() }
func vqIsNil(x any) bool {
	if x == nil {
		return true
	}
	v := reflect.ValueOf(x)
	switch v.Kind() {
	case reflect.Ptr, reflect.Slice, reflect.Map, reflect.Chan, reflect.Func, reflect.Interface:
		return v.IsNil()
	}
	return false
}
func vqSame(a, b any) bool {
	if vqIsNil(a) || vqIsNil(b) {
		return vqIsNil(a) && vqIsNil(b)
	}
	return a == b
}
`

// runReplayTestIn runs the generated in-package test against the repository without writing to it (go test -overlay).
func runReplayTestIn(repoDir, relPkg, src string) (bool, string) {
	work, _ := os.MkdirTemp("", "vq-replay-run-")
	defer os.RemoveAll(work)
	testFile := filepath.Join(work, "zz_vq_replay_test.go")
	os.WriteFile(testFile, []byte(src), 0o644)
	target := filepath.Join(repoDir, relPkg, "zz_vq_replay_test.go")
	ov, _ := json.Marshal(map[string]interface{}{"Replace": map[string]string{target: testFile}})
	ovFile := filepath.Join(work, "overlay.json")
	os.WriteFile(ovFile, ov, 0o644)
	ctx, cancel := context.WithTimeout(context.Background(), 180*time.Second)
	defer cancel()
	cmd := exec.CommandContext(ctx, "go", "test", "-overlay", ovFile, "-vet=off", "-count=1", "-timeout", "60s", "-run", "^TestVQReplay$", "./"+relPkg)
	cmd.Dir = repoDir
	cmd.Env = append(os.Environ(), "GOFLAGS=-mod=mod", "GOPROXY=off")
	out, _ := cmd.CombinedOutput()
	text := string(out)
	var keep []string
	for _, l := range strings.Split(text, "\n") {
		if strings.Contains(l, "REPLAY-") || strings.HasPrefix(l, "--- ") || strings.HasPrefix(l, "FAIL") || strings.HasPrefix(l, "ok ") || strings.Contains(l, ".go:") {
			keep = append(keep, l)
		}
	}
	if len(keep) > 12 {
		keep = keep[:12]
	}
	return strings.Contains(text, "REPLAY-CONFIRMED"), strings.Join(keep, "\n")
}

// runReplayTest (vq replay <record>): re-runs the test stored in a replay record.
func runReplayTest(pkgDir, src string) (bool, string) {
	repo := "/repo"
	if d := os.Getenv("VQ_REPO"); d != "" {
		repo = d
	}
	return runReplayTestIn(repo, pkgDir, src)
}

var _ = ssa.Function{}
