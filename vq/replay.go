package main

// replayObligation: model -> concrete run of the real function. Implemented per data structure (reifiers); until a reifier exists for the
// function, the refutation is reported without a concrete input.
func replayObligation(env *Env, o *Obligation, rp *replayRecord) (bool, string) {
	return false, "no reifier for this function yet: refutation reported from the solver model only"
}
