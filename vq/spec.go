package main

import (
	"bufio"
	"fmt"
	"os"
	"path/filepath"
	"sort"
	"strings"
)

// SpecLib: SMT-LIB specification modules (/verif/spec/*.smt2) and the predicates they export.
type SpecLib struct {
	Modules map[string]*SpecModule
	Preds   map[string]*SpecPred
}

type SpecModule struct {
	Name     string
	Declares map[string]string // function symbols the module text uses and the engine must declare (name -> signature)
	Requires []string
	Text     string // SMT text without ;@ lines
	File     string
}

type SpecPred struct {
	SortFrom *CExpr // template predicates: the sort parameter %S% is the sort of this expression (over the formals)
	Name    string
	Module  string
	Formals []string
	Fun     string
	Args    []specArg
	Sort    string
}

type specArg struct {
	kind string // heap | expr | oldheap
	key  string
	sort string
	expr *CExpr
}

func loadSpec(dir string) (*SpecLib, error) {
	sl := &SpecLib{Modules: map[string]*SpecModule{}, Preds: map[string]*SpecPred{}}
	files, _ := filepath.Glob(filepath.Join(dir, "*.smt2"))
	sort.Strings(files)
	for _, f := range files {
		if err := sl.loadFile(f); err != nil {
			return nil, err
		}
	}
	return sl, nil
}

func (sl *SpecLib) loadFile(path string) error {
	fh, err := os.Open(path)
	if err != nil {
		return err
	}
	defer fh.Close()
	var mod *SpecModule
	var text strings.Builder
	sc := bufio.NewScanner(fh)
	sc.Buffer(make([]byte, 1<<20), 1<<20)
	ln := 0
	for sc.Scan() {
		ln++
		line := sc.Text()
		t := strings.TrimSpace(line)
		if strings.HasPrefix(t, ";@") {
			body := strings.TrimSpace(t[2:])
			switch {
			case strings.HasPrefix(body, "module "):
				fs := strings.Fields(body)
				mod = &SpecModule{Name: fs[1], File: path}
				for i := 2; i < len(fs); i++ {
					if fs[i] == "requires" {
						continue
					}
					mod.Requires = append(mod.Requires, fs[i])
				}
				sl.Modules[mod.Name] = mod
			case strings.HasPrefix(body, "declare "):
				fs := strings.SplitN(strings.TrimSpace(body[8:]), " ", 2)
				if mod == nil || len(fs) != 2 {
					return fmt.Errorf("%s:%d: bad declare directive", path, ln)
				}
				if mod.Declares == nil {
					mod.Declares = map[string]string{}
				}
				mod.Declares[fs[0]] = strings.TrimSpace(fs[1])
			case strings.HasPrefix(body, "pred "):
				if mod == nil {
					return fmt.Errorf("%s:%d: pred before module", path, ln)
				}
				p, err := parsePredDecl(body[5:], path, ln)
				if err != nil {
					return err
				}
				p.Module = mod.Name
				sl.Preds[p.Name] = p
			default:
				return fmt.Errorf("%s:%d: unknown ;@ directive %q", path, ln, body)
			}
			continue
		}
		if i := strings.Index(line, ";"); i >= 0 {
			line = line[:i]
		}
		if strings.TrimSpace(line) == "" {
			continue
		}
		text.WriteString(line)
		text.WriteString("\n")
	}
	if mod == nil {
		return fmt.Errorf("%s: no ;@ module line", path)
	}
	mod.Text = text.String()
	return sc.Err()
}

// pred Name(f1, f2) [-> Sort] := fun | heap KEY SORT | expr E | old KEY SORT
func parsePredDecl(s, path string, ln int) (*SpecPred, error) {
	i := strings.Index(s, ":=")
	if i < 0 {
		return nil, fmt.Errorf("%s:%d: pred needs ':='", path, ln)
	}
	head := strings.TrimSpace(s[:i])
	rest := strings.TrimSpace(s[i+2:])
	p := &SpecPred{Sort: SBool}
	if j := strings.Index(head, "->"); j >= 0 {
		p.Sort = strings.TrimSpace(head[j+2:])
		head = strings.TrimSpace(head[:j])
	}
	if j := strings.Index(head, "("); j >= 0 {
		p.Name = strings.TrimSpace(head[:j])
		for _, f := range strings.Split(strings.TrimSuffix(head[j+1:], ")"), ",") {
			if f = strings.TrimSpace(f); f != "" {
				p.Formals = append(p.Formals, f)
			}
		}
	} else {
		p.Name = head
	}
	parts := strings.Split(rest, "|")
	p.Fun = strings.TrimSpace(parts[0])
	if fs := strings.Fields(p.Fun); len(fs) == 3 && fs[1] == "sortof" {
		// "<fun> sortof <expr>"
		e, err := parseCExpr(fs[2])
		if err != nil {
			return nil, fmt.Errorf("%s:%d: %v", path, ln, err)
		}
		p.Fun = fs[0]
		p.SortFrom = e
	}
	for _, a := range parts[1:] {
		a = strings.TrimSpace(a)
		fs := strings.SplitN(a, " ", 2)
		if len(fs) < 2 {
			return nil, fmt.Errorf("%s:%d: bad pred arg %q", path, ln, a)
		}
		switch fs[0] {
		case "heap", "old":
			ks := strings.SplitN(strings.TrimSpace(fs[1]), " ", 2)
			if len(ks) != 2 {
				return nil, fmt.Errorf("%s:%d: heap arg needs key and sort: %q", path, ln, a)
			}
			p.Args = append(p.Args, specArg{kind: fs[0], key: ks[0], sort: strings.TrimSpace(ks[1])})
		case "expr":
			e, err := parseCExpr(fs[1])
			if err != nil {
				return nil, fmt.Errorf("%s:%d: %v", path, ln, err)
			}
			p.Args = append(p.Args, specArg{kind: "expr", expr: e})
		default:
			return nil, fmt.Errorf("%s:%d: bad pred arg kind %q", path, ln, fs[0])
		}
	}
	return p, nil
}

func (sl *SpecLib) apply(ec *EvalCtx, e *CExpr) Val {
	st := ec.st
	var p *SpecPred
	if ec.pkg != nil {
		p = sl.Preds[e.Name+"@"+shortPkg(ec.pkg.Path())]
	}
	if p == nil {
		p = sl.Preds[e.Name]
	}
	if p == nil {
		fail("unknown spec function @%s", e.Name)
	}
	if len(e.Args) != len(p.Formals) {
		fail("@%s expects %d arguments", e.Name, len(p.Formals))
	}
	sub := ec.child()
	sub.names = copyNames(ec.names)
	for i, f := range p.Formals {
		sub.bound[f] = ec.eval(e.Args[i])
	}
	inst := ""
	fun := p.Fun
	if p.SortFrom != nil {
		inst = sub.evalTerm(p.SortFrom).Sort
		sl.need(st.vc, p.Module+"<"+inst+">")
		fun = strings.ReplaceAll(fun, "%S%", inst)
	} else {
		sl.need(st.vc, p.Module)
	}
	var args []Term
	for _, a := range p.Args {
		switch a.kind {
		case "heap", "old":
			key, srt := a.key, a.sort
			if inst != "" {
				key, srt = strings.ReplaceAll(key, "%S%", inst), strings.ReplaceAll(srt, "%S%", inst)
			}
			st.vc.setKeySort(key, srt)
			if ec.inOld || a.kind == "old" {
				args = append(args, st.oldGet(key))
			} else {
				args = append(args, st.get(key))
			}
		case "expr":
			args = append(args, sub.evalTerm(a.expr))
		}
	}
	if len(args) == 0 {
		return TV{Term{fun, p.Sort}, nil}
	}
	return TV{app(smtIdent(fun), p.Sort, args...), nil}
}

// variantOf: modules with variants ("heaporder.abs" / "heaporder.pq") are selected by the package being verified.
func (sl *SpecLib) resolve(mod, variant string) string {
	if _, ok := sl.Modules[mod]; ok {
		return mod
	}
	if _, ok := sl.Modules[mod+"."+variant]; ok {
		return mod + "." + variant
	}
	return mod
}

func (vc *VC) specVariant() string {
	pkg := ""
	if vc.fn != nil {
		pkg = pkgPathOf(vc.fn)
	} else {
		pkg = vc.lemmaPkg
	}
	if pkg == "container/heap" {
		return "abs"
	}
	return "pq"
}

func baseModule(mod string) (string, string) {
	if i := strings.Index(mod, "<"); i > 0 && strings.HasSuffix(mod, ">") {
		return mod[:i], mod[i+1 : len(mod)-1]
	}
	return mod, ""
}

func (sl *SpecLib) need(vc *VC, mod string) {
	if b, inst := baseModule(mod); inst != "" {
		if vc.modules[mod] {
			return
		}
		vc.modules[mod] = true
		if m := sl.Modules[b]; m != nil {
			for _, r := range m.Requires {
				sl.need(vc, r)
			}
		}
		return
	}
	mod = sl.resolve(mod, vc.specVariant())
	if vc.modules[mod] {
		return
	}
	vc.modules[mod] = true
	if m := sl.Modules[mod]; m != nil {
		for n, sig := range m.Declares {
			vc.strLits["fun."+n] = sig
		}
		for _, r := range m.Requires {
			sl.need(vc, r)
		}
	}
}

// prelude text for a set of modules, dependencies first.
func (sl *SpecLib) prelude(mods map[string]bool) string {
	variant := "pq"
	for n := range mods {
		if strings.HasSuffix(n, ".abs") {
			variant = "abs"
		}
	}
	var order []string
	seen := map[string]bool{}
	var visit func(n string)
	insts := map[string]string{}
	visit = func(n string) {
		if seen[n] {
			return
		}
		seen[n] = true
		if b, inst := baseModule(n); inst != "" {
			insts[n] = inst
			if m := sl.Modules[b]; m != nil {
				for _, r := range m.Requires {
					visit(sl.resolve(r, variant))
				}
				order = append(order, n)
			}
			return
		}
		m := sl.Modules[n]
		if m == nil {
			return
		}
		for _, r := range m.Requires {
			visit(sl.resolve(r, variant))
		}
		order = append(order, n)
	}
	for _, n := range sortedKeys(mods) {
		visit(n)
	}
	var b strings.Builder
	for _, n := range order {
		b.WriteString("; --- module " + n + "\n")
		if inst, ok := insts[n]; ok {
			bm, _ := baseModule(n)
			b.WriteString(strings.ReplaceAll(sl.Modules[bm].Text, "%S%", inst))
			continue
		}
		b.WriteString(sl.Modules[n].Text)
	}
	return b.String()
}
