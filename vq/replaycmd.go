package main

import (
	"encoding/json"
	"fmt"
	"os"
	"path/filepath"
	"strings"
)

// vq replay <record.json>: re-examines one recorded violation on the current tree.
//  1. if the record carries a Go replay test (a concrete input derived from the solver's model), it is run against /repo (go test -overlay);
//  2. the function of the obligation is re-verified and the obligation's status is printed.
// exit 1 when the violation is still present, 0 when it is gone.
var replayWork string

func cmdReplay(args []string) {
	if len(args) != 1 {
		fmt.Fprintln(os.Stderr, "usage: vq replay <replays/x.json>")
		os.Exit(2)
	}
	data, err := os.ReadFile(args[0])
	if err != nil {
		fmt.Fprintln(os.Stderr, err)
		os.Exit(2)
	}
	var rp replayRecord
	if err := json.Unmarshal(data, &rp); err != nil {
		fmt.Fprintln(os.Stderr, err)
		os.Exit(2)
	}
	fmt.Printf("property   %s\nobligation %s\nreason     %s\n", rp.Property, rp.Obligation, rp.Reason)
	if rp.Model != "" {
		fmt.Printf("model (%s):\n%s\n", rp.Backend, firstLines(rp.Model, 40))
	}
	still := false
	if rp.ReplayTest != "" {
		ok, out := runReplayTest(rp.ReplayPkg, rp.ReplayTest)
		fmt.Printf("replay test on the real code: failing input confirmed = %v\n%s\n", ok, out)
		if ok {
			still = true
		}
	}
	fn := rp.Function
	if fn == "" {
		fn = strings.SplitN(rp.Obligation, "#", 2)[0]
	}
	env, err := loadEnv()
	if err != nil {
		fmt.Fprintln(os.Stderr, err)
		os.Exit(2)
	}
	fr := env.verifyFuncWithKnown(fn, "SEQ", rp.Property, loadKnownFindings())
	if len(fr.Unbound) > 0 {
		fmt.Println("contract does not bind:", strings.Join(fr.Unbound, "; "))
		still = true
	}
	if fr.VC != nil {
		var jobs []solveJob
		for _, o := range fr.VC.obls {
			if o.Name == rp.Obligation {
				jobs = append(jobs, solveJob{fr.VC, o, fr.VC.heap0All()})
			}
		}
		work, _ := os.MkdirTemp("", "vq-replay-")
		replayWork = work
		defer os.RemoveAll(work)
		dischargeAll(jobs, filepath.Join(work, "q"), 10, 60, false, solverWorkers())
		if len(jobs) == 0 && len(fr.Unbound) == 0 && !strings.Contains(rp.Obligation, "#vacuity") && !strings.Contains(rp.Obligation, "#contract-unbound") {
			fmt.Println("obligation is no longer generated for this function")
			still = true
		}
		for _, j := range jobs {
			fmt.Printf("re-verification: %s -> %s [%s %dms]\n", j.o.Name, j.o.Status, j.o.Backend, j.o.Ms)
			if j.o.Status != "proved" {
				still = true
			}
		}
	}
	if still {
		fmt.Println("violation still present")
		if replayWork != "" {
			os.RemoveAll(replayWork)
		}
		os.Exit(1)
	}
	fmt.Println("violation no longer present")
}
