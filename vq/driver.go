package main

import (
	"fmt"
	"go/types"
	"os"
	"path/filepath"
	"sort"
	"strings"
	"time"
)

func verifDir() string {
	if d := os.Getenv("VQ_VERIF"); d != "" {
		return d
	}
	return "/verif"
}

type Env struct {
	w    *World
	cs   *Contracts
	spec *SpecLib
}

func loadEnv() (*Env, error) {
	w, err := loadWorld()
	if err != nil {
		return nil, err
	}
	cs, err := loadContracts(w.RepoDir, verifDir())
	if err != nil {
		return nil, err
	}
	sp, err := loadSpec(filepath.Join(verifDir(), "spec"))
	if err != nil {
		return nil, err
	}
	return &Env{w, cs, sp}, nil
}

func (env *Env) newVC(key, mode string) *VC {
	fn := env.w.Funcs[key]
	vc := &VC{w: env.w, cs: env.cs, spec: env.spec, fn: fn, key: key, fc: env.cs.Funcs[key], keySort: map[string]string{}, prims: map[string]bool{},
		modules: map[string]bool{}, mode: mode, strLits: map[string]string{}, inlined: map[string]bool{}, usedContracts: map[string]bool{}, assumptionsUsed: map[string]bool{}, globalsUsed: map[string]bool{}}
	return vc
}

type FuncResult struct {
	Key     string
	Mode    string
	VC      *VC
	Unbound []string
	Heap0   map[string]Term
}

// verifyFunc symbolically executes one function and returns its obligations (unsolved).
func (env *Env) verifyFunc(key, mode string) *FuncResult {
	fr := &FuncResult{Key: key, Mode: mode}
	fn := env.w.Funcs[key]
	if fn == nil {
		fr.Unbound = []string{"function not found in the tree (renamed or removed)"}
		return fr
	}
	vc := env.newVC(key, mode)
	fr.VC = vc
	st0heap := map[string]Term{}
	_ = st0heap
	tpSubst = map[*types.TypeParam]types.Type{}
	vc.run()
	fr.Unbound = vc.unbound
	return fr
}

func cmdVerify(args []string) {
	mode := "SEQ"
	var keys []string
	verbose := false
	keep := false
	for _, a := range args {
		switch {
		case a == "-v":
			verbose = true
		case a == "-keep":
			keep = true
		case strings.HasPrefix(a, "-mode="):
			mode = a[6:]
		default:
			keys = append(keys, a)
		}
	}
	env, err := loadEnv()
	if err != nil {
		fmt.Fprintln(os.Stderr, err)
		os.Exit(2)
	}
	if len(keys) == 0 {
		for k := range env.cs.Funcs {
			keys = append(keys, k)
		}
		sort.Strings(keys)
	}
	t0 := time.Now()
	var jobs []solveJob
	var results []*FuncResult
	for _, k := range keys {
		fr := env.verifyFunc(k, mode)
		results = append(results, fr)
		if fr.VC != nil {
			for _, o := range fr.VC.obls {
				jobs = append(jobs, solveJob{fr.VC, o, fr.VC.heap0All()})
			}
		}
	}
	work, _ := os.MkdirTemp("", "vq-")
	if !keep {
		defer os.RemoveAll(work)
	} else {
		fmt.Println("queries in", work)
	}
	// vacuity: each return path's assumptions checked for satisfiability (goal "false" must NOT be provable)
	var feas []solveJob
	for _, fr := range results {
		if fr.VC == nil {
			continue
		}
		for i, l := range fr.VC.feasLines {
			o := &Obligation{Name: fmt.Sprintf("%s#canary:path%d", fr.Key, i+1), Kind: "canary", Fn: fr.Key, lines: l, Goal: tFalse, Modules: map[string]bool{}}
			for m := range fr.VC.modules {
				o.Modules[m] = true
			}
			fr.VC.canaries = append(fr.VC.canaries, o)
			feas = append(feas, solveJob{fr.VC, o, fr.VC.heap0All()})
		}
		for _, ln := range sortedKeys(fr.VC.loopFeas) {
			for i, l := range fr.VC.loopFeas[ln] {
				o := &Obligation{Name: fmt.Sprintf("%s#canary:%s.body%d", fr.Key, ln, i+1), Kind: "loopcanary", Fn: fr.Key, lines: l, Goal: tFalse, Modules: map[string]bool{}, Info: ln}
				for m := range fr.VC.modules {
					o.Modules[m] = true
				}
				fr.VC.loopCanaries = append(fr.VC.loopCanaries, o)
				feas = append(feas, solveJob{fr.VC, o, fr.VC.heap0All()})
			}
		}
	}
	dischargeAll(jobs, work, 4, 15, false, solverWorkers())
	dischargeAll(feas, work+"/canary", 2, 2, false, solverWorkers())
	bad := 0
	for _, fr := range results {
		n, p := 0, 0
		if fr.VC != nil {
			n = len(fr.VC.obls)
			for _, o := range fr.VC.obls {
				if o.Status == "proved" {
					p++
				}
			}
		}
		fmt.Printf("%-50s %s obligations %d proved %d paths %d", fr.Key, fr.Mode, n, p, func() int {
			if fr.VC != nil {
				return fr.VC.retPaths
			}
			return 0
		}())
		if fr.VC != nil {
			dead := 0
			for _, o := range fr.VC.canaries {
				if o.Status == "proved" {
					dead++
				}
			}
			fmt.Printf(" deadpaths %d/%d", dead, len(fr.VC.canaries))
			if dead == len(fr.VC.canaries) && dead > 0 {
				fmt.Printf("  VACUOUS: every return path is infeasible")
				bad++
			}
			for _, ln := range fr.VC.deadLoops() {
				fmt.Printf("  DEAD-LOOP-BODY: %s", ln)
				bad++
			}
		}
		if len(fr.Unbound) > 0 {
			fmt.Printf("  UNBOUND: %s", strings.Join(fr.Unbound, "; "))
			bad++
		}
		fmt.Println()
		if fr.VC != nil {
			for _, o := range fr.VC.obls {
				if o.Status != "proved" {
					bad++
					fmt.Printf("   %-8s %s  [%s %dms %dB] %s\n", o.Status, o.Name, o.Backend, o.Ms, o.Bytes, o.Info)
					if o.SolverOut != "" {
						fmt.Printf("            %s\n", firstLines(o.SolverOut, 4))
					}
					if verbose && o.Model != "" {
						fmt.Println(o.Model)
					}
				} else if verbose {
					fmt.Printf("   proved   %s  [%s %dms]\n", o.Name, o.Backend, o.Ms)
				}
			}
		}
	}
	fmt.Printf("total %d obligations, %d problems, %.1fs\n", len(jobs), bad, time.Since(t0).Seconds())
	if bad > 0 {
		if !keep {
			os.RemoveAll(work) // deferred calls do not run on os.Exit
		}
		os.Exit(1)
	}
}

// heap0All: entry-state constants created on any path of this VC.
func (vc *VC) heap0All() map[string]Term { return vc.heap0shared }

// deadLoops: loops all of whose body paths (arrivals at the back edge) are infeasible, and that the contract does not declare dead.
func (vc *VC) deadLoops() []string {
	by := map[string][2]int{}
	for _, o := range vc.loopCanaries {
		c := by[o.Info]
		c[1]++
		if o.Status == "proved" {
			c[0]++
		}
		by[o.Info] = c
	}
	var out []string
	for _, ln := range sortedKeys(by) {
		if by[ln][0] == by[ln][1] && by[ln][1] > 0 && !vc.declaredDead(ln) {
			out = append(out, ln)
		}
	}
	return out
}

func (vc *VC) declaredDead(loopName string) bool {
	if vc.fc == nil {
		return false
	}
	for _, c := range vc.fc.clauses("dead_loop") {
		if strings.TrimSpace(c.Text) == loopName {
			return true
		}
	}
	return false
}
