package main

import (
	"fmt"
	"go/constant"
	"go/token"
	"go/types"
	"sort"
	"strings"

	"golang.org/x/tools/go/ssa"
)

// ---------- loops ----------

func (vc *VC) computeLoops(fn *ssa.Function) {
	if vc.loops == nil {
		vc.loops = map[*ssa.BasicBlock]*loopInfo{}
	}
	if vc.loopsDone == nil {
		vc.loopsDone = map[*ssa.Function]bool{}
	}
	if vc.loopsDone[fn] || fn.Blocks == nil {
		return
	}
	vc.loopsDone[fn] = true
	var headers []*ssa.BasicBlock
	for _, b := range fn.Blocks {
		for _, s := range b.Succs {
			if s.Dominates(b) { // back edge b -> s
				li := vc.loops[s]
				if li == nil {
					li = &loopInfo{header: s, body: map[*ssa.BasicBlock]bool{s: true}, mod: map[string]bool{}}
					vc.loops[s] = li
					headers = append(headers, s)
				}
				// natural loop: nodes that reach b without passing s
				var stack []*ssa.BasicBlock
				if !li.body[b] {
					li.body[b] = true
					stack = append(stack, b)
				}
				for len(stack) > 0 {
					x := stack[len(stack)-1]
					stack = stack[:len(stack)-1]
					for _, p := range x.Preds {
						if !li.body[p] {
							li.body[p] = true
							stack = append(stack, p)
						}
					}
				}
			}
		}
	}
	// ordinal by source position of the header's first positioned instruction, fall back to block index
	sort.Slice(headers, func(i, j int) bool {
		pi, pj := blockPos(headers[i]), blockPos(headers[j])
		if pi != pj {
			return pi < pj
		}
		return headers[i].Index < headers[j].Index
	})
	for i, h := range headers {
		vc.loops[h].ord = i + 1
	}
}

func blockPos(b *ssa.BasicBlock) token.Pos {
	best := token.NoPos
	for _, in := range b.Instrs {
		if p := in.Pos(); p != token.NoPos && (best == token.NoPos || p < best) {
			best = p
		}
	}
	if best == token.NoPos {
		return token.Pos(1 << 30)
	}
	return best
}

// ---------- instruction ordinals (stable obligation names) ----------

func (vc *VC) computeOrdinals(fn *ssa.Function) {
	if vc.ordinals == nil {
		vc.ordinals = map[ssa.Instruction]int{}
		vc.callOrd = map[ssa.Instruction]int{}
		vc.ordDone = map[*ssa.Function]bool{}
	}
	if vc.ordDone[fn] {
		return
	}
	vc.ordDone[fn] = true
	type item struct {
		in  ssa.Instruction
		pos token.Pos
		seq int
	}
	byKind := map[string][]item{}
	seq := 0
	for _, b := range fn.Blocks {
		if b == fn.Recover {
			continue
		}
		for _, in := range b.Instrs {
			seq++
			k := instrKind(in)
			if k == "" {
				continue
			}
			byKind[k] = append(byKind[k], item{in, in.Pos(), seq})
		}
	}
	for _, items := range byKind {
		sort.SliceStable(items, func(i, j int) bool {
			if items[i].pos != items[j].pos && items[i].pos != token.NoPos && items[j].pos != token.NoPos {
				return items[i].pos < items[j].pos
			}
			return items[i].seq < items[j].seq
		})
		for i, it := range items {
			vc.ordinals[it.in] = i + 1
		}
	}
}

func instrKind(in ssa.Instruction) string {
	switch x := in.(type) {
	case *ssa.IndexAddr:
		return "index"
	case *ssa.Slice:
		return "slice"
	case *ssa.BinOp:
		switch x.Op {
		case token.ADD, token.SUB, token.MUL:
			return "arith" + x.Op.String()
		case token.QUO, token.REM:
			return "div"
		}
	case *ssa.Call:
		return "call:" + calleeName(x.Common())
	case *ssa.Defer:
		return "call:" + calleeName(x.Common())
	case *ssa.Go:
		return "go:" + calleeName(x.Common())
	case *ssa.TypeAssert:
		return "assert"
	case *ssa.Send:
		return "send"
	case *ssa.Select:
		return "select"
	case *ssa.UnOp:
		if x.Op == token.ARROW {
			return "recv"
		}
		if x.Op == token.MUL {
			return "load"
		}
	case *ssa.Store:
		return "store"
	case *ssa.FieldAddr:
		return "fieldaddr"
	case *ssa.Return:
		return "return"
	case *ssa.Panic:
		return "panic"
	case *ssa.Convert:
		return "convert"
	}
	return ""
}

// calleeName: stable short name of the callee of a call.
func calleeName(c *ssa.CallCommon) string {
	if c.IsInvoke() {
		return "invoke." + c.Method.Name()
	}
	switch f := c.Value.(type) {
	case *ssa.Function:
		if o := f.Origin(); o != nil {
			return funcKey(o)
		}
		return funcKey(f)
	case *ssa.Builtin:
		return "builtin." + f.Name()
	case *ssa.MakeClosure:
		return funcKey(f.Fn.(*ssa.Function))
	}
	return "funcvalue"
}

// ---------- verification of one function ----------

func (vc *VC) newState() *State {
	if vc.heap0shared == nil {
		vc.heap0shared = map[string]Term{}
	}
	return &State{vc: vc, heap: map[string]Term{}, heap0: vc.heap0shared, held: map[string]string{}, nonnil: map[string]bool{}, ghostLocals: map[string]Val{}, dyn: map[string]dynInfo{}}
}

func (vc *VC) run() {
	defer func() {
		if r := recover(); r != nil {
			if u, ok := r.(unsupported); ok {
				vc.unbound = append(vc.unbound, u.msg)
				return
			}
			panic(r)
		}
	}()
	fn := vc.fn
	vc.computeLoops(fn)
	vc.computeOrdinals(fn)
	vc.parseGhostStmts()
	st := vc.newState()
	vc.holdsAtEntry(st)
	fr := &Frame{fn: fn, vals: map[ssa.Value]Val{}, locals: map[*localCell]Val{}, names: map[string]Val{}, curLoopDec: map[int]Term{}}
	st.fr = fr
	// parameters
	for i, p := range fn.Params {
		v := st.freshVal("p."+p.Name(), p.Type())
		vc.rootParams = append(vc.rootParams, v)
		fr.vals[p] = v
		fr.names[p.Name()] = v
		if tv, ok := v.(TV); ok && isRefLike(p.Type()) {
			st.assumeAllocated(tv.T)
			if i == 0 && fn.Signature.Recv() != nil {
				if _, isPtr := types.Unalias(p.Type()).Underlying().(*types.Pointer); isPtr {
					st.assume(tNot(tEq(tv.T, tInt(0))))
					st.nonnil[tv.T.S] = true
				}
			}
		}
	}
	for _, fv := range fn.FreeVars {
		v := st.freshVal("fv."+fv.Name(), fv.Type())
		fr.vals[fv] = v
		fr.names[fv.Name()] = v
		if tv, ok := v.(TV); ok {
			if vc.fvCells == nil {
				vc.fvCells = map[string]string{}
			}
			vc.fvCells[tv.T.S] = fv.Name()
		}
		if tv, ok := v.(TV); ok && isRefLike(fv.Type()) {
			st.assumeAllocated(tv.T)
			if _, isPtr := types.Unalias(fv.Type()).Underlying().(*types.Pointer); isPtr {
				// captured variables are addresses of live cells
				st.assume(tNot(tEq(tv.T, tInt(0))))
				st.nonnil[tv.T.S] = true
			}
		}
	}
	// requires
	if vc.fc != nil {
		for _, c := range vc.fc.clauses("requires") {
			if c.Mode != "" && c.Mode != vc.mode {
				continue
			}
			e, err := c.expr()
			if err != nil {
				fail("%v", err)
			}
			ec := &EvalCtx{st: st, names: fr.names, pkg: vc.fn.Pkg.Pkg, tparams: vc.tparamEnv(fn)}
			t := ec.evalBool(e)
			st.assume(t)
		}
	}
	vc.evalExcuses(st)
	if vc.fc != nil {
		for _, c := range vc.fc.clauses("apply") {
			vc.applyLemma(st, strings.TrimSuffix(strings.TrimSpace(c.Text), "at entry"))
		}
	}
	vc.runGhost(st, "entry", "", 0)
	st.enter(fn.Blocks[0], nil)
}

func isRefLike(t types.Type) bool {
	switch types.Unalias(t).Underlying().(type) {
	case *types.Pointer, *types.Chan:
		return true
	}
	return false
}

func (vc *VC) tparamEnv(fn *ssa.Function) map[string]types.Type {
	env := map[string]types.Type{}
	add := func(tps *types.TypeParamList) {
		if tps == nil {
			return
		}
		for i := 0; i < tps.Len(); i++ {
			env[tps.At(i).Obj().Name()] = tps.At(i)
		}
	}
	for f := fn; f != nil; f = f.Parent() {
		add(f.Signature.TypeParams())
		add(f.Signature.RecvTypeParams())
	}
	return env
}

// enter moves execution into block b coming from pred (nil at function entry).
func (st *State) enter(b *ssa.BasicBlock, pred *ssa.BasicBlock) {
	vc := st.vc
	// phi values
	nphi := 0
	var phiVals []Val
	for _, in := range b.Instrs {
		phi, ok := in.(*ssa.Phi)
		if !ok {
			break
		}
		nphi++
		idx := -1
		for i, p := range b.Preds {
			if p == pred {
				idx = i
				break
			}
		}
		if idx < 0 {
			fail("phi without matching predecessor")
		}
		phiVals = append(phiVals, st.value(phi.Edges[idx]))
	}
	li := vc.loops[b]
	if li != nil {
		lkey := ""
		if st.fr.fn != vc.fn {
			lkey = funcKey(st.fr.fn)
		}
		isBack := pred != nil && li.body[pred]
		// bind phi values for invariant evaluation
		for i := 0; i < nphi; i++ {
			phi := b.Instrs[i].(*ssa.Phi)
			st.fr.vals[phi] = phiVals[i]
			if phi.Comment != "" {
				st.fr.names[phi.Comment] = phiVals[i]
			}
		}
		// range-over-slice loops: $ranged names the slice being ranged over
		for i := 0; i < nphi; i++ {
			phi := b.Instrs[i].(*ssa.Phi)
			if phi.Comment != "rangeindex" {
				continue
			}
			for blk := range li.body {
				for _, in := range blk.Instrs {
					if ia, ok := in.(*ssa.IndexAddr); ok {
						if bo, ok := ia.Index.(*ssa.BinOp); ok && bo.X == ssa.Value(phi) {
							if v, ok := st.fr.vals[ia.X]; ok {
								st.ghostLocals["$ranged"] = v
							}
						}
					}
				}
			}
		}
		invs := vc.loopClauses(lkey, li.ord, "loop-invariant")
		if len(invs) == 0 && vc.mode != "B1" {
			// B1 decides lock discipline from the held-lock set alone: a loop is cut with the trivial invariant there
			fail("loop %s#%d has no invariant", lkey, li.ord)
		}
		lname := fmt.Sprintf("loop%d", li.ord)
		if lkey != "" {
			lname = lkey + ".loop" + fmt.Sprint(li.ord)
		}
		kind := "inv-init"
		if isBack {
			kind = "inv-keep"
			if lkey == "" {
				vc.runGhost(st, "at backedge", fmt.Sprintf("loop%d", li.ord), 0)
			}
		}
		for i, c := range invs {
			e, err := c.expr()
			if err != nil {
				fail("%v", err)
			}
			ec := st.evalCtx()
			conj := ec.evalConjuncts(e)
			for gi, g := range conj {
				lbl := clauseLabel(c, i)
				if len(conj) > 1 {
					lbl = fmt.Sprintf("%s.%d", lbl, gi+1)
				}
				st.oblige(kind, lname+"."+lbl, g.t, g.text)
			}
		}
		if st.fr.parent == nil || true {
			for _, g := range st.frameGoals(st.topNames(), nil) {
				if g.label == allocKey {
					continue
				}
				st.oblige(kind, lname+".frame."+g.label, g.goal, g.info)
			}
		}
		decs := vc.loopClauses(lkey, li.ord, "loop-decreases")
		if isBack {
			if vc.loopFeas == nil {
				vc.loopFeas = map[string][]*Line{}
			}
			vc.loopFeas[lname] = append(vc.loopFeas[lname], st.lines)
			for _, c := range decs {
				e, _ := c.expr()
				ec := st.evalCtx()
				cur := ec.evalTerm(e)
				if prev, ok := st.fr.curLoopDec[li.ord]; ok {
					st.oblige("dec", lname, tAnd(tGe(prev, tInt(0)), tLt(cur, prev)), e.String())
				}
			}
			return
		}
		// loop entry: havoc and assume the invariant
		vc.computeLoopMod(li)
		var allocBefore *Term
		if _, ok := vc.keySort[allocKey]; ok {
			a := st.get(allocKey)
			allocBefore = &a
		}
		for i := 0; i < nphi; i++ {
			phi := b.Instrs[i].(*ssa.Phi)
			v := st.freshVal("phi."+phi.Comment, phi.Type())
			st.fr.vals[phi] = v
			if phi.Comment != "" {
				st.fr.names[phi.Comment] = v
			}
		}
		if li.modAll {
			for k := range vc.keySort {
				if k != allocKey {
					st.havocKey(k)
				}
			}
		} else {
			for _, k := range sortedKeys(li.mod) {
				if strings.HasSuffix(k, "<") {
					for k2 := range vc.keySort {
						if strings.HasPrefix(k2, k) {
							st.havocKey(k2)
						}
					}
					st.nonnil["pendinghavocprefix:"+k] = true
					st.nonnil["pendingloopprefix:"+k] = true
					continue
				}
				if _, ok := vc.keySort[k]; ok {
					st.havocKey(k)
				} else {
					// key not yet touched: mark it so that a later first use gets a fresh constant distinct from entry state
					st.heap[k] = Term{}
					delete(st.heap, k)
					vc.pendingHavoc(st, k)
				}
			}
		}
		if allocBefore != nil {
			if now := st.get(allocKey); now.S != allocBefore.S {
				st.addLine(fmt.Sprintf("(assert (forall ((r Int)) (! (=> (select %s r) (select %s r)) :pattern ((select %s r)))))", allocBefore.S, now.S, allocBefore.S))
			}
		}
		// the function's frame condition is an implicit loop invariant: re-assume it for the havocked keys
		for _, g := range st.frameGoals(st.topNames(), nil) {
			if g.label == allocKey {
				continue
			}
			st.assume(g.goal)
		}
		// local cells assigned in the loop
		vc.havocLocalsInLoop(st, li)
		// ghost locals may be assigned by anchors inside the loop: unknown at the loop head unless the invariant says otherwise
		for _, name := range sortedKeys(st.ghostLocals) {
			if tv, ok := st.ghostLocals[name].(TV); ok && name != "$panicked" && name != "$ranged" {
				st.ghostLocals[name] = TV{st.declare("gl."+strings.TrimPrefix(name, "$"), tv.T.Sort), tv.Typ}
			}
		}
		for _, c := range invs {
			e, _ := c.expr()
			ec := st.evalCtx()
			st.assume(ec.evalBool(e))
		}
		for _, c := range decs {
			e, _ := c.expr()
			ec := st.evalCtx()
			d := st.define("variant", ec.evalTerm(e))
			st.fr.curLoopDec[li.ord] = d
		}
		st.runFrom(b, nphi)
		return
	}
	for i := 0; i < nphi; i++ {
		phi := b.Instrs[i].(*ssa.Phi)
		st.fr.vals[phi] = phiVals[i]
		if phi.Comment != "" {
			st.fr.names[phi.Comment] = phiVals[i]
		}
	}
	st.runFrom(b, nphi)
}

// pendingHavoc: a key that the loop may modify but that has no sort yet (never touched). Record so first use creates a post-havoc constant.
func (vc *VC) pendingHavoc(st *State, key string) {
	// We cannot declare without a sort; remember under a marker and resolve in State.get via heap0 miss.
	st.nonnil["pendingloophavoc:"+key] = true
}

func (vc *VC) havocLocalsInLoop(st *State, li *loopInfo) {
	for b := range li.body {
		for _, in := range b.Instrs {
			if s, ok := in.(*ssa.Store); ok {
				if al, ok := s.Addr.(*ssa.Alloc); ok && !al.Heap {
					if pv, ok := st.fr.vals[al].(PtrV); ok && pv.Kind == "local" {
						st.fr.setLocal(pv.Local, st.freshVal("loc."+al.Comment, pv.Local.typ))
					}
				}
			}
		}
	}
}

func (vc *VC) loopClauses(lkey string, ord int, kw string) []*Clause {
	if vc.fc == nil {
		return nil
	}
	var out []*Clause
	for _, c := range vc.fc.Clauses {
		if c.Kw == kw && c.Loop == ord && c.LoopFn == lkey && (c.Mode == "" || c.Mode == vc.mode) {
			out = append(out, c)
		}
	}
	return out
}

func clauseLabel(c *Clause, i int) string {
	if c.Label != "" {
		return c.Label
	}
	return fmt.Sprintf("%d", i+1)
}

func splitConj(e *CExpr) []*CExpr {
	if e.Kind == "bin" && e.Op == "&&" {
		return append(splitConj(e.Args[0]), splitConj(e.Args[1])...)
	}
	return []*CExpr{e}
}

func (st *State) evalCtx() *EvalCtx {
	if st.ghostFrame != nil {
		fn := st.ghostFrame.fn
		var pkg *types.Package
		if fn.Pkg != nil {
			pkg = fn.Pkg.Pkg
		}
		return &EvalCtx{st: st, names: st.ghostFrame.names, pkg: pkg, tparams: st.vc.tparamEnv(fn)}
	}
	fn := st.fr.fn
	var pkg *types.Package
	if fn.Pkg != nil {
		pkg = fn.Pkg.Pkg
	} else if fn.Object() != nil {
		pkg = fn.Object().Pkg()
	}
	return &EvalCtx{st: st, names: st.fr.names, pkg: pkg, tparams: st.vc.tparamEnv(fn)}
}

// runFrom executes instructions of block b starting at index idx.
func (st *State) runFrom(b *ssa.BasicBlock, idx int) {
	for i := idx; i < len(b.Instrs); i++ {
		switch in := b.Instrs[i].(type) {
		case *ssa.If:
			c := st.value(in.Cond).(TV).T
			if c.S == "true" {
				st.enter(b.Succs[0], b)
				return
			}
			if c.S == "false" {
				st.enter(b.Succs[1], b)
				return
			}
			st2 := st.fork()
			st.assume(c)
			st.enter(b.Succs[0], b)
			st2.assume(tNot(c))
			st2.enter(b.Succs[1], b)
			return
		case *ssa.Jump:
			st.enter(b.Succs[0], b)
			return
		case *ssa.Return:
			st.doReturn(in)
			return
		case *ssa.Panic:
			st.doPanic(in)
			return
		case *ssa.Call:
			if st.doCall(in, b, i) { // inlined: continuation handled by frame
				return
			}
		case *ssa.RunDefers:
			if st.runDefers(b, i) { // an inlined deferred closure took over; it resumes at this instruction
				return
			}
		default:
			st.step(in)
		}
	}
}

func (st *State) doPanic(in *ssa.Panic) {
	vc := st.vc
	// explicit panic: allowed only if the contract says so
	if vc.fc != nil && st.fr.fn == vc.fn {
		for _, c := range vc.fc.clauses("ensures_on_panic") {
			e, err := c.expr()
			if err != nil {
				fail("%v", err)
			}
			ec := st.evalCtx()
			ec.names = copyNames(ec.names)
			ec.names["panicvalue"] = st.value(in.X)
			st.oblige("post-panic", clauseLabel(c, 0), ec.evalBool(e), e.String())
		}
		if len(vc.fc.clauses("ensures_on_panic")) > 0 {
			return
		}
	}
	st.oblige("unreach", fmt.Sprintf("panic#%d", vc.ordinals[in]), tFalse, "explicit panic must be unreachable")
}

func copyNames(m map[string]Val) map[string]Val {
	n := make(map[string]Val, len(m)+2)
	for k, v := range m {
		n[k] = v
	}
	return n
}

func (st *State) doReturn(in *ssa.Return) {
	var res []Val
	for _, r := range in.Results {
		res = append(res, st.value(r))
	}
	fr := st.fr
	if fr.parent != nil && fr.retKind == "defer" {
		// return from an inlined deferred closure: resume the RunDefers instruction (or the unwinding) of the parent
		st.fr = fr.parent
		if st.unwinding {
			st.unwind()
			return
		}
		st.runFrom(fr.retBlk, fr.retIdx)
		return
	}
	if fr.parent != nil {
		// return from inlined callee
		st.fr = fr.parent
		var v Val
		switch len(res) {
		case 0:
			v = TupleV{}
		case 1:
			v = res[0]
		default:
			v = TupleV{res}
		}
		st.fr.vals[fr.retInst] = v
		st.vc.runGhost(st, "after call", calleeName(fr.retInst.Common()), st.vc.callOrd[fr.retInst], v)
		st.runFrom(fr.retBlk, fr.retIdx)
		return
	}
	vc := st.vc
	vc.retPaths++
	vc.feasLines = append(vc.feasLines, st.lines)
	vc.runGhost(st, "at return", "", 0, TupleV{res})
	if vc.mode == "B1" {
		// locks acquired by the function are released on every return path (locks the caller holds, "#*#", stay)
		var left []string
		for _, k := range sortedKeys(st.held) {
			if !strings.Contains(k, "#*#") {
				left = append(left, k)
			}
		}
		st.oblige("guard", "no-lock-held-at-return", tBool(len(left) == 0), "locks still held at return: "+strings.Join(left, ","))
	}
	if vc.fc == nil {
		return
	}
	names := copyNames(fr.names)
	for i, r := range res {
		if i == 0 {
			names["result"] = r
		}
		names[fmt.Sprintf("result%d", i)] = r
	}
	for i, c := range vc.fc.clauses("ensures") {
		if c.Mode != "" && c.Mode != vc.mode {
			continue
		}
		e, err := c.expr()
		if err != nil {
			fail("%v", err)
		}
		ec := &EvalCtx{st: st, names: names, pkg: vc.fn.Pkg.Pkg, tparams: vc.tparamEnv(vc.fn)}
		conj := ec.evalConjuncts(e)
		for gi, g := range conj {
			lbl := clauseLabel(c, i)
			if len(conj) > 1 {
				lbl = fmt.Sprintf("%s.%d", lbl, gi+1)
			}
			st.oblige("post", lbl, g.t, g.text)
		}
	}
	st.frameCheck(names)
	for _, c := range vc.fc.clauses("unreachable") {
		if strings.HasPrefix(c.Text, "return#") {
			var k int
			fmt.Sscanf(c.Text, "return#%d", &k)
			if vc.ordinals[in] == k {
				st.oblige("unreach", c.Text, tFalse, "declared unreachable")
			}
		}
	}
}

// value evaluates an SSA value in the current frame.
func (st *State) value(v ssa.Value) Val {
	switch x := v.(type) {
	case *ssa.Const:
		return st.constVal(x)
	case *ssa.Global:
		return st.globalAddr(x)
	case *ssa.Function:
		return FuncV{Fn: x, Typ: x.Type()}
	case *ssa.Builtin:
		fail("builtin as value")
	}
	if val, ok := st.fr.vals[v]; ok {
		return val
	}
	// free variables / params of enclosing frames are bound in the frame itself
	fail("no value for %s (%T) in %s", v.Name(), v, funcKey(st.fr.fn))
	return nil
}

func (st *State) constVal(c *ssa.Const) Val {
	t := c.Type()
	if c.Value == nil {
		// zero value / nil
		return st.zeroVal(t)
	}
	switch c.Value.Kind() {
	case constant.Bool:
		return TV{tBool(constant.BoolVal(c.Value)), t}
	case constant.Int:
		return TV{tIntStr(c.Value.ExactString()), t}
	case constant.String:
		return TV{st.vc.strLit(constant.StringVal(c.Value)), t}
	case constant.Float:
		return TV{Term{c.Value.ExactString(), "Real"}, t}
	}
	fail("unsupported constant %s", c)
	return nil
}

// globals: package-level variables are cells "G:<pkg.name>" holding one value (index 0).
func (st *State) globalAddr(g *ssa.Global) Val {
	el := derefType(g.Type())
	name := shortPkg(g.Pkg.Pkg.Path()) + "." + g.Name()
	return PtrV{Kind: "cell", Root: "global." + name, Base: tInt(1), Elem: el, Typ: g.Type()}
}

func (st *State) bind(v ssa.Value, val Val) { st.fr.vals[v] = val }

func (st *State) step(in ssa.Instruction) {
	vc := st.vc
	switch x := in.(type) {
	case *ssa.DebugRef:
		if id, ok := x.Expr.(interface{ String() string }); ok {
			_ = id
		}
		if x.Object() != nil {
			name := x.Object().Name()
			// a local shadowing a parameter does not rebind the name contracts use for the parameter
			for _, prm := range st.fr.fn.Params {
				if prm.Name() == name && prm.Object() != x.Object() {
					return
				}
			}
			for _, fv := range st.fr.fn.FreeVars {
				if fv.Name() == name {
					return // contracts of closures name their captured variables (addresses); uses do not rebind them
				}
			}
			if x.IsAddr {
				if pv, ok := st.fr.vals[x.X].(PtrV); ok {
					st.fr.names["&"+name] = pv
				} else if tv, ok := st.fr.vals[x.X].(TV); ok {
					st.fr.names["&"+name] = tv
				}
			} else {
				switch x.X.(type) {
				case *ssa.Const, *ssa.Function, *ssa.Global:
					st.fr.names[name] = st.value(x.X)
				default:
					if val, ok := st.fr.vals[x.X]; ok {
						st.fr.names[name] = val
					}
				}
			}
		}
	case *ssa.Alloc:
		el := derefType(x.Type())
		if !x.Heap {
			lc := &localCell{id: vc.nfresh, typ: el}
			vc.nfresh++
			st.fr.locals[lc] = st.zeroVal(el)
			st.bind(x, PtrV{Kind: "local", Local: lc, Elem: el, Typ: x.Type()})
			if x.Comment != "" {
				st.fr.names["&"+x.Comment] = st.fr.vals[x]
			}
			return
		}
		if at, isArr := el.Underlying().(*types.Array); isArr {
			// a Go array is modelled as a backing array ref (region "elem")
			r := st.allocRef("newarr")
			st.zeroArray(r, at.Elem())
			st.bind(x, TV{r, x.Type()})
			return
		}
		r := st.allocRef("new." + x.Comment)
		p := st.asPtr(TV{r, x.Type()}, x.Type())
		st.zeroInit(p, el)
		st.bind(x, TV{r, x.Type()})
		if x.Comment != "" {
			st.fr.names["&"+x.Comment] = TV{r, x.Type()}
		}
	case *ssa.FieldAddr:
		base := st.value(x.X)
		pt := x.X.Type()
		stt := derefType(pt).Underlying().(*types.Struct)
		f := stt.Field(x.Field)
		var p PtrV
		switch b := base.(type) {
		case TV:
			st.nilCheck(b.T, fmt.Sprintf("fieldaddr#%d", vc.ordinals[in]), "&"+x.X.Name()+"."+f.Name())
			p = st.asPtr(b, pt)
		case PtrV:
			p = b
		default:
			fail("FieldAddr on %T", base)
		}
		np := p
		np.Path = joinPath(p.Path, f.Name())
		np.Elem = f.Type()
		np.Typ = x.Type()
		np = reroot(np)
		st.bind(x, np)
		st.guardCheck(np, false, in, true)
	case *ssa.Field:
		sv, ok := st.value(x.X).(StructV)
		if !ok {
			fail("Field on non-struct value")
		}
		st.bind(x, sv.F[x.Field])
	case *ssa.IndexAddr:
		xv := st.value(x.X)
		if at := ptrToArray(x.X.Type()); at != nil {
			idx := st.value(x.Index).(TV).T
			st.oblige("bounds", fmt.Sprintf("index#%d", vc.ordinals[in]), tAnd(tLe(tInt(0), idx), tLt(idx, tInt(at.Len()))), "index in range")
			st.bind(x, PtrV{Kind: "elem", Root: typeRepr(at.Elem()), Base: xv.(TV).T, Idx: idx, Elem: at.Elem(), Typ: x.Type()})
			return
		}
		sv, ok := xv.(SliceV)
		if !ok {
			fail("IndexAddr on %T", xv)
		}
		idx := st.value(x.Index).(TV).T
		st.oblige("bounds", fmt.Sprintf("index#%d", vc.ordinals[in]), tAnd(tLe(tInt(0), idx), tLt(idx, sv.Len)), "index in range")
		el := sliceElem(sv.Typ)
		st.bind(x, PtrV{Kind: "elem", Root: typeRepr(el), Base: sv.Arr, Idx: offIdx(st, sv.Off, idx), Elem: el, Typ: x.Type()})
	case *ssa.UnOp:
		st.unop(x)
	case *ssa.BinOp:
		st.binop(x)
	case *ssa.Store:
		av := st.value(x.Addr)
		p := st.asPtr(av, x.Addr.Type())
		if p.Kind == "elem" && st.nonnil["view:"+p.Base.S] {
			fail("store through a slice that does not start at offset 0 of its backing array (modelled as a read-only view)")
		}
		if tv, ok := av.(TV); ok {
			st.nilCheck(tv.T, fmt.Sprintf("store#%d", vc.ordinals[in]), "*"+x.Addr.Name())
		}
		st.guardCheck(p, true, in, false)
		st.fvWriteCheck(p, in)
		st.store(p, st.value(x.Val))
		vc.runGhostStore(st, p)
	case *ssa.Extract:
		tv, ok := st.value(x.Tuple).(TupleV)
		if !ok {
			fail("Extract from %T", st.value(x.Tuple))
		}
		st.bind(x, tv.E[x.Index])
	case *ssa.MakeInterface:
		st.bind(x, st.makeInterface(st.value(x.X), x.X.Type(), x.Type()))
	case *ssa.ChangeInterface:
		v := st.value(x.X).(TV)
		st.bind(x, TV{v.T, x.Type()})
	case *ssa.ChangeType:
		v := st.value(x.X)
		if _, isTP := types.Unalias(x.X.Type()).(*types.TypeParam); isTP {
			if _, isIface := x.Type().Underlying().(*types.Interface); isIface {
				st.bind(x, st.makeInterface(v, x.X.Type(), x.Type()))
				return
			}
		}
		switch vv := v.(type) {
		case TV:
			st.bind(x, TV{vv.T, x.Type()})
		case FuncV:
			vv.Typ = x.Type()
			st.bind(x, vv)
		case SliceV:
			vv.Typ = x.Type()
			st.bind(x, vv)
		case StructV:
			vv.Typ = x.Type()
			st.bind(x, vv)
		default:
			st.bind(x, v)
		}
	case *ssa.Convert:
		st.convert(x)
	case *ssa.TypeAssert:
		st.typeAssert(x)
	case *ssa.Slice:
		st.sliceOp(x)
	case *ssa.MakeSlice:
		ln := st.value(x.Len).(TV).T
		cp := st.value(x.Cap).(TV).T
		st.oblige("bounds", fmt.Sprintf("makeslice#%d", vc.ordinals[in]), tAnd(tLe(tInt(0), ln), tLe(ln, cp)), "make: 0 <= len <= cap")
		arr := st.allocRef("arr")
		el := sliceElem(x.Type())
		st.zeroArray(arr, el)
		st.bind(x, SliceV{arr, tInt(0), ln, cp, x.Type()})
	case *ssa.MakeChan:
		sz := st.value(x.Size).(TV).T
		st.oblige("bounds", fmt.Sprintf("makechan#%d", vc.ordinals[in]), tLe(tInt(0), sz), "make(chan): size >= 0")
		r := st.allocRef("chan")
		st.setChanElem(x.Type())
		st.chanInit(r, sz)
		st.assumeRange(r, x.Type())
		st.bind(x, TV{r, x.Type()})
	case *ssa.MakeClosure:
		fv := FuncV{Fn: x.Fn.(*ssa.Function), Typ: x.Type()}
		for _, b := range x.Bindings {
			fv.Bind = append(fv.Bind, st.value(b))
		}
		st.bind(x, fv)
	case *ssa.Defer:
		d := deferred{call: &x.Call, instr: x}
		if !x.Call.IsInvoke() {
			if _, isB := x.Call.Value.(*ssa.Builtin); !isB {
				d.fnv = st.value(x.Call.Value)
			}
		} else {
			d.fnv = st.value(x.Call.Value)
		}
		for _, a := range x.Call.Args {
			d.args = append(d.args, st.value(a))
		}
		st.fr.defers = append(st.fr.defers, d)
	case *ssa.Go:
		st.doGo(x)
	case *ssa.Send:
		ch := st.value(x.Chan).(TV).T
		st.chanSend(ch, st.value(x.X), x.Chan.Type().Underlying().(*types.Chan).Elem(), fmt.Sprintf("send#%d", vc.ordinals[in]), true)
	case *ssa.Select:
		st.selectOp(x)
	default:
		fail("unsupported instruction %T: %s", in, in)
	}
}

func (st *State) nilCheck(t Term, label, info string) {
	if st.nonnil[t.S] {
		return
	}
	st.oblige("nil", label, tNot(tEq(t, tInt(0))), info+" non-nil")
	st.nonnil[t.S] = true
	st.assume(tNot(tEq(t, tInt(0))))
}

func (st *State) zeroArray(arr Term, el types.Type) {
	// all leaves of the element type are zero at every index of the fresh backing array
	p := PtrV{Kind: "elem", Root: typeRepr(el), Base: arr, Idx: tInt(0), Elem: el}
	for _, lf := range leavesOf(el, "") {
		key, _ := st.leafSortKey(p, lf)
		a := st.get(key)
		inner := st.declare("zarr", arrSort(SInt, lf.sort))
		z := st.zeroTerm(lf.typ)
		st.addLine(fmt.Sprintf("(assert (forall ((i Int)) (! (= (select %s i) %s) :pattern ((select %s i)))))", inner.S, z.S, inner.S))
		st.set(key, tStore(a, arr, inner))
	}
}

func (st *State) unop(x *ssa.UnOp) {
	vc := st.vc
	switch x.Op {
	case token.MUL: // load
		av := st.value(x.X)
		p := st.asPtr(av, x.X.Type())
		if tv, ok := av.(TV); ok {
			st.nilCheck(tv.T, fmt.Sprintf("load#%d", vc.ordinals[x]), "*"+x.X.Name())
		}
		st.guardCheck(p, false, x, false)
		v := st.load(p, false)
		if tv, ok := v.(TV); ok && isRefLike(x.Type()) {
			st.assumeAllocated(tv.T)
		}
		st.bind(x, v)
	case token.NOT:
		v := st.value(x.X).(TV)
		st.bind(x, TV{tNot(v.T), x.Type()})
	case token.SUB:
		v := st.value(x.X).(TV)
		r := st.define("neg", app("-", SInt, v.T))
		st.ovfCheck(r, x.Type(), fmt.Sprintf("neg#%d", vc.ordinals[x]))
		st.bind(x, TV{r, x.Type()})
	case token.ARROW:
		st.chanRecv(x)
	case token.XOR:
		v := st.value(x.X).(TV)
		// ^x on unsigned = max - x; on signed = -x-1
		if lo, hi, ok := intRange(x.Type()); ok && lo == "0" {
			st.bind(x, TV{app("-", SInt, Term{hi, SInt}, v.T), x.Type()})
		} else {
			st.bind(x, TV{tSub(app("-", SInt, v.T), tInt(1)), x.Type()})
		}
	default:
		fail("unsupported unary op %s", x.Op)
	}
}

func (st *State) ovfCheck(r Term, t types.Type, label string) {
	lo, hi, ok := intRange(t)
	if !ok {
		return
	}
	st.oblige("ovf", label, Term{"(and (<= " + lo + " " + r.S + ") (<= " + r.S + " " + hi + "))", SBool}, "no overflow of "+types.TypeString(t, nil))
	st.nonnil["rg:"+r.S] = true
	st.assume(Term{"(and (<= " + lo + " " + r.S + ") (<= " + r.S + " " + hi + "))", SBool})
}

func (st *State) binop(x *ssa.BinOp) {
	vc := st.vc
	a := st.value(x.X)
	b := st.value(x.Y)
	ta, okA := a.(TV)
	tb, okB := b.(TV)
	if !okA || !okB {
		// pointer comparison with interior pointers
		if x.Op == token.EQL || x.Op == token.NEQ {
			at, bt := st.termOf(a), st.termOf(b)
			r := tEq(at, bt)
			if x.Op == token.NEQ {
				r = tNot(r)
			}
			st.bind(x, TV{r, x.Type()})
			return
		}
		fail("binop %s on %T,%T", x.Op, a, b)
	}
	lbl := fmt.Sprintf("%s#%d", x.Op.String(), vc.ordinals[x])
	var r Term
	switch x.Op {
	case token.ADD:
		if ta.T.Sort == SStr {
			r = app("str.cat", SStr, ta.T, tb.T)
			vc.strLits["fun.str.cat"] = "(Str Str) Str"
			st.bind(x, TV{r, x.Type()})
			return
		}
		r = st.define("sum", tAdd(ta.T, tb.T))
		st.ovfCheck(r, x.Type(), lbl)
	case token.SUB:
		r = st.define("dif", tSub(ta.T, tb.T))
		st.ovfCheck(r, x.Type(), lbl)
	case token.MUL:
		r = st.define("prd", tMul(ta.T, tb.T))
		st.ovfCheck(r, x.Type(), lbl)
	case token.QUO:
		st.oblige("div", fmt.Sprintf("quo#%d", vc.ordinals[x]), tNot(tEq(tb.T, tInt(0))), "divisor non-zero")
		vc.modules["base"] = true
		r = st.define("quo", app("goquo", SInt, ta.T, tb.T))
	case token.REM:
		st.oblige("div", fmt.Sprintf("rem#%d", vc.ordinals[x]), tNot(tEq(tb.T, tInt(0))), "divisor non-zero")
		vc.modules["base"] = true
		r = st.define("rem", app("gorem", SInt, ta.T, tb.T))
	case token.EQL:
		r = tEq(ta.T, tb.T)
	case token.NEQ:
		r = tNot(tEq(ta.T, tb.T))
	case token.LSS:
		r = st.cmp("<", ta, tb)
	case token.LEQ:
		r = st.cmp("<=", ta, tb)
	case token.GTR:
		r = st.cmp(">", ta, tb)
	case token.GEQ:
		r = st.cmp(">=", ta, tb)
	case token.LAND, token.LOR:
		fail("unexpected logical binop")
	default:
		// bitwise etc.: uninterpreted
		fname := "bitop." + x.Op.String()
		vc.strLits["fun."+fname] = "(Int Int) Int"
		r = app(smtIdent(fname), SInt, ta.T, tb.T)
		c := st.define("bit", r)
		st.assumeRange(c, x.Type())
		r = c
	}
	st.bind(x, TV{r, x.Type()})
}

func (st *State) cmp(op string, a, b TV) Term {
	if a.T.Sort == SStr {
		fail("string ordering unsupported")
	}
	return app(op, SBool, a.T, b.T)
}

// termOf: scalar term of a value (encoding pointers and functions).
func (st *State) termOf(v Val) Term {
	switch x := v.(type) {
	case TV:
		return x.T
	case PtrV:
		return st.encodePtr(x)
	case FuncV:
		return st.encodeFunc(x)
	}
	fail("termOf %T", v)
	return Term{}
}

func (st *State) convert(x *ssa.Convert) {
	vc := st.vc
	v := st.value(x.X)
	tv, ok := v.(TV)
	if !ok {
		if sv, isS := v.(SliceV); isS { // []byte <-> string etc: unsupported
			_ = sv
		}
		fail("Convert of %T", v)
	}
	from, to := x.X.Type(), x.Type()
	if tv.T.Sort == SInt && sortOf(to) == SInt {
		flo, fhi, fok := intRange(from)
		tlo, thi, tok := intRange(to)
		if fok && tok {
			if rangeWithin(flo, fhi, tlo, thi) {
				st.bind(x, TV{tv.T, to})
				return
			}
			mod, signed, _ := intModulus(to)
			vc.modules["base"] = true
			var r Term
			if signed {
				r = Term{fmt.Sprintf("(let ((m (mod %s %s))) (ite (> m %s) (- m %s) m))", tv.T.S, mod, thi, mod), SInt}
			} else {
				r = Term{fmt.Sprintf("(mod %s %s)", tv.T.S, mod), SInt}
			}
			c := st.define("conv", r)
			st.nonnil["rg:"+c.S] = true
			st.assume(Term{"(and (<= " + tlo + " " + c.S + ") (<= " + c.S + " " + thi + "))", SBool})
			// lossy conversion: recorded as an obligation kind "trunc" only when the contract asks (value-preserving)
			st.bind(x, TV{c, to})
			return
		}
		st.bind(x, TV{tv.T, to})
		return
	}
	if tv.T.Sort == sortOf(to) {
		st.bind(x, TV{tv.T, to})
		return
	}
	fail("unsupported conversion %s -> %s", from, to)
}

func rangeWithin(flo, fhi, tlo, thi string) bool {
	return cmpNum(flo, tlo) >= 0 && cmpNum(fhi, thi) <= 0
}

func cmpNum(a, b string) int {
	pa, pb := parseNum(a), parseNum(b)
	return pa.Cmp(pb)
}

func (st *State) sliceOp(x *ssa.Slice) {
	vc := st.vc
	xv := st.value(x.X)
	if at := ptrToArray(x.X.Type()); at != nil {
		xv = SliceV{xv.(TV).T, tInt(0), tInt(at.Len()), tInt(at.Len()), types.NewSlice(at.Elem())}
	}
	sv, ok := xv.(SliceV)
	if !ok {
		fail("Slice of %T", xv)
	}
	lo := tInt(0)
	if x.Low != nil {
		lo = st.value(x.Low).(TV).T
	}
	hi := sv.Len
	if x.High != nil {
		hi = st.value(x.High).(TV).T
	}
	mx := sv.Cap
	if x.Max != nil {
		mx = st.value(x.Max).(TV).T
	}
	st.oblige("bounds", fmt.Sprintf("slice#%d", vc.ordinals[x]), tAnd(tLe(tInt(0), lo), tLe(lo, hi), tLe(hi, mx), tLe(mx, sv.Cap)), "slice bounds in range")
	if lo.S != "0" || sv.Off.S != "0" {
		// a slice that does not start at offset 0 of its backing array is modelled as a read-only view: a fresh array whose elements
		// equal the shifted elements of the original (stores through it are outside the modelled subset)
		el := sliceElem(sv.Typ)
		narr := st.allocRef("view")
		nlen := st.define("len", tSub(hi, lo))
		ncap := st.define("cap", tSub(mx, lo))
		shift := offIdx(st, sv.Off, lo)
		p := PtrV{Kind: "elem", Root: typeRepr(el), Base: narr, Idx: tInt(0), Elem: el}
		for _, lf := range leavesOf(el, "") {
			key, _ := st.leafSortKey(p, lf)
			a := st.get(key)
			src := st.define("srcin", tSelect(a, sv.Arr))
			ni := st.declare("viewin", arrSort(SInt, lf.sort))
			st.addLine(fmt.Sprintf("(assert (forall ((i Int)) (! (=> (and (<= 0 i) (< i %s)) (= (select %s i) (select %s (+ %s i)))) :pattern ((select %s i)))))", ncap.S, ni.S, src.S, shift.S, ni.S))
			st.set(key, tStore(a, narr, ni))
		}
		st.nonnil["view:"+narr.S] = true
		st.bind(x, SliceV{Arr: narr, Off: tInt(0), Len: nlen, Cap: ncap, Typ: x.Type()})
		return
	}
	nv := SliceV{Arr: sv.Arr, Off: offIdx(st, sv.Off, lo), Len: st.define("len", tSub(hi, lo)), Cap: st.define("cap", tSub(mx, lo)), Typ: x.Type()}
	st.bind(x, nv)
}

// ---------- interfaces ----------

// tidRepr: dynamic-type identity; type arguments are erased (the code under contract never distinguishes two instantiations of one
// generic type by a type switch or assertion).
func tidRepr(t types.Type) string {
	r := typeRepr(t)
	if i := strings.Index(r, "["); i >= 0 && !strings.HasPrefix(r, "[]") {
		r = r[:i]
	}
	return r
}

func (vc *VC) typeID(t types.Type) Term {
	name := "tid." + tidRepr(t)
	vc.strLits[name] = "tid"
	return Term{smtIdent(name), SInt}
}

func (st *State) makeInterface(v Val, from, to types.Type) Val {
	vc := st.vc
	vc.modules["iface"] = true
	if _, isIface := types.Unalias(from).Underlying().(*types.Interface); isIface {
		if _, isTP := types.Unalias(from).(*types.TypeParam); !isTP {
			return TV{v.(TV).T, to}
		}
	}
	if tp, isTP := types.Unalias(from).(*types.TypeParam); isTP {
		s := "TP_" + tp.Obj().Name()
		fn := "box." + s
		vc.strLits["box."+s] = "box"
		return TV{app(smtIdent(fn), SInt, v.(TV).T), to}
	}
	switch x := v.(type) {
	case TV:
		if x.T.Sort == SInt {
			if _, isPtr := types.Unalias(from).Underlying().(*types.Pointer); isPtr {
				r := app("mkptr", SInt, vc.typeID(from), x.T)
				st.dyn[r.S] = dynInfo{from, v}
				vc.strLits["ptrtid."+tidRepr(from)] = "ptrtid"
				return TV{r, to}
			}
			return TV{app("mkint", SInt, vc.typeID(from), x.T), to}
		}
		if x.T.Sort == SBool {
			return TV{app("mkint", SInt, vc.typeID(from), tIte(x.T, tInt(1), tInt(0))), to}
		}
		if x.T.Sort == SStr {
			vc.strLits["fun.mkstr"] = "(Int Str) Int"
			r := app("mkstr", SInt, vc.typeID(from), x.T)
			c := st.define("istr", r)
			st.assume(tAnd(tNot(tEq(c, tInt(0))), tEq(app("typeof", SInt, c), vc.typeID(from))))
			st.dyn[c.S] = dynInfo{from, v}
			return TV{c, to}
		}
	case FuncV:
		return TV{app("mkint", SInt, vc.typeID(from), st.encodeFunc(x)), to}
	case PtrV:
		if x.Path != "" && !refEmbedded[x.Root+"."+x.Path] {
			// interior pointer boxed into an interface (e.g. &w.mx as sync.Locker): an opaque non-nil value determined by object and field
			fn := "intptr." + x.Root + "." + x.Path
			vc.strLits["fun."+fn] = "(Int) Int"
			c := st.define("iptr", app(smtIdent(fn), SInt, x.Base))
			st.assume(tAnd(tNot(tEq(c, tInt(0))), tEq(app("typeof", SInt, c), vc.typeID(from))))
			st.dyn[c.S] = dynInfo{from, v}
			return TV{c, to}
		}
		return TV{app("mkptr", SInt, vc.typeID(from), st.encodePtr(x)), to}
	case StructV:
		// struct boxed into an interface: opaque non-nil value with the right dynamic type (the boxed value is remembered for json.Marshal)
		c := st.declare("ibox", SInt)
		st.assume(tAnd(tNot(tEq(c, tInt(0))), tEq(app("typeof", SInt, c), vc.typeID(from))))
		st.dyn[c.S] = dynInfo{from, v}
		return TV{c, to}
	case SliceV:
		c := st.declare("ibox", SInt)
		st.assume(tAnd(tNot(tEq(c, tInt(0))), tEq(app("typeof", SInt, c), vc.typeID(from))))
		return TV{c, to}
	}
	fail("makeInterface of %T (%s)", v, from)
	return nil
}

func (st *State) typeAssert(x *ssa.TypeAssert) {
	vc := st.vc
	vc.modules["iface"] = true
	iv := st.value(x.X).(TV).T
	to := x.AssertedType
	var ok Term
	var val Val
	if tp, isTP := types.Unalias(to).(*types.TypeParam); isTP {
		s := "TP_" + tp.Obj().Name()
		vc.strLits["box."+s] = "box"
		ok = app(smtIdent("is."+s), SBool, iv)
		val = TV{app(smtIdent("unbox."+s), s, iv), to}
	} else if _, isIface := types.Unalias(to).Underlying().(*types.Interface); isIface {
		iname := typeRepr(to)
		if n, isN := types.Unalias(to).(*types.Named); isN {
			iname = qualifiedName(n)
		}
		vc.strLits["impl."+iname] = "impl"
		ok = tAnd(tNot(tEq(iv, tInt(0))), app(smtIdent("impl."+iname), SBool, app("typeof", SInt, iv)))
		val = TV{iv, to}
	} else {
		ok = tEq(app("typeof", SInt, iv), vc.typeID(to))
		switch classify(to) {
		case kScalar:
			switch sortOf(to) {
			case SInt:
				if _, isPtr := types.Unalias(to).Underlying().(*types.Pointer); isPtr {
					val = TV{app("ptrof", SInt, iv), to}
				} else if _, isSig := types.Unalias(to).Underlying().(*types.Signature); isSig {
					val = TV{app("intof", SInt, iv), to}
				} else {
					c := st.define("unb", app("intof", SInt, iv))
					st.assumeRange(c, to)
					val = TV{c, to}
				}
			case SBool:
				val = TV{tEq(app("intof", SInt, iv), tInt(1)), to}
			case SStr:
				vc.strLits["fun.strof"] = "(Int) Str"
				val = TV{app("strof", SStr, iv), to}
			default:
				fail("type assertion to %s", to)
			}
		case kSlice:
			// e.g. v.([]byte): opaque slice determined by the interface value
			vc.strLits["fun.slarr"] = "(Int) Int"
			vc.strLits["fun.sllen"] = "(Int) Int"
			sv := SliceV{app("slarr", SInt, iv), tInt(0), app("sllen", SInt, iv), app("sllen", SInt, iv), to}
			st.assume(tGe(sv.Len, tInt(0)))
			val = sv
		default:
			val = st.freshVal("assert", to)
		}
	}
	if x.CommaOk {
		// on failure the value is the zero value
		var rv Val
		if tv, isTV := val.(TV); isTV {
			rv = TV{tIte(ok, tv.T, st.zeroTerm(to)), to}
		} else {
			rv = val
		}
		st.bind(x, TupleV{[]Val{rv, TV{ok, types.Typ[types.Bool]}}})
		return
	}
	st.oblige("assert", fmt.Sprintf("typeassert#%d", vc.ordinals[x]), ok, "type assertion to "+typeRepr(to)+" cannot fail")
	st.assume(ok)
	st.bind(x, val)
}

// ---------- go statements ----------

func (st *State) doGo(x *ssa.Go) {
	vc := st.vc
	name := calleeName(&x.Call)
	// ghost: $spawned["<callee>"]++ ; the spawned function is verified separately against its own contract
	k := "G:$spawned"
	vc.setKeySort(k, arrSort(SStr, SInt))
	cur := st.get(k)
	id := vc.strLit(name)
	st.set(k, tStore(cur, id, tAdd(tSelect(cur, id), tInt(1))))
	vc.runGhost(st, "at go", name, vc.ordinals[x])
}

func offIdx(st *State, off, i Term) Term {
	if off.S == "0" {
		return i
	}
	if i.S == "0" {
		return off
	}
	return st.define("ix", tAdd(off, i))
}

func ptrToArray(t types.Type) *types.Array {
	if p, ok := types.Unalias(t).Underlying().(*types.Pointer); ok {
		if a, ok := p.Elem().Underlying().(*types.Array); ok {
			return a
		}
	}
	return nil
}

// topNames: parameter names of the function under contract (outermost frame).
func (st *State) topNames() map[string]Val {
	fr := st.fr
	for fr.parent != nil {
		fr = fr.parent
	}
	return fr.names
}

// zeroInit: zero-initialise the leaves of a freshly allocated object (immutable, write-once leaves are left for their single store).
func (st *State) zeroInit(p PtrV, el types.Type) {
	for _, lf := range leavesOf(el, "") {
		if p.Kind == "obj" {
			if _, imm := st.vc.immutableFun(st.vc.leafKey(p, lf.path), lf.sort); imm {
				continue
			}
		}
		var z Term
		if strings.HasSuffix(lf.path, "#arr") || strings.HasSuffix(lf.path, "#len") || strings.HasSuffix(lf.path, "#cap") {
			z = tInt(0)
		} else {
			z = st.zeroTerm(lf.typ)
		}
		st.writeLeaf(p, lf, z)
	}
}

// reroot: a value-embedded struct field whose address escapes (refEmbedded) is addressed as an object of its own type at the parent's ref.
func reroot(p PtrV) PtrV {
	if p.Kind == "obj" && refEmbedded[p.Root+"."+p.Path] {
		return PtrV{Kind: "obj", Root: rootName(p.Elem), Base: p.Base, Path: "", Elem: p.Elem, Typ: p.Typ}
	}
	return p
}

// runDefers executes the pending deferred calls of the current frame (LIFO). Deferred closures without a contract are executed from
// their bodies; returns true if control was transferred to such a body (it resumes at the same RunDefers instruction).
func (st *State) runDefers(b *ssa.BasicBlock, idx int) bool {
	for len(st.fr.defers) > 0 {
		d := st.fr.defers[len(st.fr.defers)-1]
		st.fr.defers = st.fr.defers[:len(st.fr.defers)-1]
		if st.inlineDeferred(d, b, idx) {
			return true
		}
		st.vc.runGhost(st, "before call", calleeName(d.call), st.vc.ordinals[d.instr])
		res := st.callCommon(d.call, d.fnv, d.args, d.instr, true)
		st.vc.runGhost(st, "after call", calleeName(d.call), st.vc.ordinals[d.instr], res)
	}
	return false
}

// inlineDeferred: a deferred closure of this module without a contract is executed inline.
func (st *State) inlineDeferred(d deferred, b *ssa.BasicBlock, idx int) bool {
	vc := st.vc
	fv, ok := d.fnv.(FuncV)
	if !ok || fv.Fn.Blocks == nil {
		return false
	}
	key := funcKey(fv.Fn)
	if fc := vc.cs.Funcs[key]; fc != nil && !fc.Inline && !vc.forceInline(key) {
		return false
	}
	if fv.Fn.Parent() == nil && !vc.forceInline(key) {
		return false // named functions need a contract
	}
	if hasLoop(fv.Fn) {
		fail("deferred closure %s has a loop", key)
	}
	vc.inlined[key] = true
	vc.computeLoops(fv.Fn)
	vc.computeOrdinals(fv.Fn)
	nf := &Frame{fn: fv.Fn, vals: map[ssa.Value]Val{}, locals: map[*localCell]Val{}, names: map[string]Val{}, parent: st.fr,
		retBlk: b, retIdx: idx, retKind: "defer", depth: st.fr.depth + 1, curLoopDec: map[int]Term{}}
	for i, p := range fv.Fn.Params {
		nf.vals[p] = d.args[i]
		nf.names[p.Name()] = d.args[i]
	}
	for i, fvv := range fv.Fn.FreeVars {
		nf.vals[fvv] = fv.Bind[i]
		nf.names[fvv.Name()] = fv.Bind[i]
	}
	st.fr = nf
	st.enter(fv.Fn.Blocks[0], nil)
	return true
}

// unwind: a panic is propagating. Run the deferred calls of the frames from the innermost outwards; if one of them recovers,
// execution resumes at the Recover block of that frame; otherwise the panic leaves the function under contract (the path ends).
func (st *State) unwind() {
	st.unwinding = true
	for {
		fr := st.fr
		if !st.panicking {
			// recovered by a deferred call of this frame
			st.unwinding = false
			if fr.fn.Recover == nil {
				fail("recovered panic in a function without a recover block")
			}
			st.enter(fr.fn.Recover, nil)
			return
		}
		if len(fr.defers) > 0 {
			d := fr.defers[len(fr.defers)-1]
			fr.defers = fr.defers[:len(fr.defers)-1]
			if st.inlineDeferred(d, nil, 0) {
				return
			}
			st.callCommon(d.call, d.fnv, d.args, d.instr, true)
			continue
		}
		if fr.parent == nil {
			// the panic escapes the function under contract
			st.vc.panicEscapes++
			if st.vc.fc != nil && len(st.vc.fc.clauses("contains_panics")) > 0 {
				st.oblige("unreach", "panic-escapes", tFalse, "a panic of user code must not escape this function")
			}
			return
		}
		st.fr = fr.parent
	}
}
