package main

import (
	"fmt"
	"go/types"
	"sort"
	"strings"

	"golang.org/x/tools/go/ssa"
)

// B1 (lock discipline, property C19).
//
// Contracts declare, per struct type, which fields are protected by which lock ("type T: guarded_by mx: f, g", or
// "guarded_by any pkg.T.mx: f" when the lock lives in the owning object). In mode B1 the executor tracks the set of held locks
// through Lock/RLock/Unlock/RUnlock (deferred unlocks run at return) and emits a `guard` obligation at every load and store of a
// guarded field: a read needs the lock in either mode, a write needs it in write mode. Objects allocated by the function itself
// are exempt (constructors). Lock identity is syntactic: the lock of the *same object term* the field is accessed through.
//
// Targets: every function under contract, plus every function of the module that statically touches a guarded field or a lock and
// is neither under contract nor inlined into a verified caller (swept with an empty contract).

func (env *Env) guardedFieldSet() map[string]bool {
	vc := &VC{cs: env.cs}
	set := map[string]bool{}
	for _, r := range vc.guardRules() {
		set[r.root+"."+strings.SplitN(r.field, ".", 2)[0]] = true
	}
	return set
}

// touchesGuarded: the function has a FieldAddr/Field on a guarded field, or calls a sync lock method.
func touchesGuarded(fn *ssa.Function, guarded map[string]bool) bool {
	for _, b := range fn.Blocks {
		for _, in := range b.Instrs {
			switch x := in.(type) {
			case *ssa.FieldAddr:
				pt, ok := types.Unalias(x.X.Type()).Underlying().(*types.Pointer)
				if !ok {
					continue
				}
				st, ok := pt.Elem().Underlying().(*types.Struct)
				if !ok {
					continue
				}
				if guarded[rootName(pt.Elem())+"."+st.Field(x.Field).Name()] {
					return true
				}
			case ssa.CallInstruction:
				if c := x.Common().StaticCallee(); c != nil {
					n := c.String()
					if strings.HasPrefix(n, "(*sync.RWMutex).") || strings.HasPrefix(n, "(*sync.Mutex).") {
						return true
					}
				}
			}
		}
	}
	return false
}

func isModuleFunc(key string) bool {
	return !strings.HasPrefix(key, "container/") && !strings.HasPrefix(key, "slices.")
}

// b1Targets: phase 1 = all functions under contract; phase 2 candidates = uncontracted functions touching guarded state.
func (env *Env) b1Targets() (contracted []string, sweep []string) {
	guarded := env.guardedFieldSet()
	for _, k := range sortedKeys(env.cs.Funcs) {
		if isModuleFunc(k) && env.w.Funcs[k] != nil {
			contracted = append(contracted, k)
		}
	}
	for k, fn := range env.w.Funcs {
		if !isModuleFunc(k) || env.cs.Funcs[k] != nil {
			continue
		}
		if fn.Pkg != nil && strings.HasSuffix(fn.Pkg.Pkg.Path(), "_test") {
			continue
		}
		if touchesGuarded(fn, guarded) {
			sweep = append(sweep, k)
		}
	}
	sort.Strings(sweep)
	return
}

// exportedFuncKey: the last component of the key (method or function name, before any $n) is exported.
func exportedFuncKey(k string) bool {
	if i := strings.Index(k, "$"); i >= 0 {
		return false // closures are reached only through their parent
	}
	n := k[strings.LastIndex(k, ".")+1:]
	return n != "" && n[0] >= 'A' && n[0] <= 'Z'
}

// fvWriteCheck (B1): a function declared `concurrent` is executed by several goroutines at once on the same closure object (the
// per-job closures handed to the pool); a store to a variable captured from the enclosing function is then an unsynchronised
// write to shared memory.
func (st *State) fvWriteCheck(p PtrV, site ssa.Instruction) {
	vc := st.vc
	if vc.mode != "B1" || vc.fc == nil || p.Kind != "cell" {
		return
	}
	if len(vc.fc.clauses("concurrent")) == 0 {
		return
	}
	if name, ok := vc.fvCells[p.Base.S]; ok {
		st.oblige("guard", fmt.Sprintf("captured-write:%s#%d", name, vc.ordinals[site]), tFalse, "store to the captured variable "+name+" in a closure that runs on several goroutines at once")
	}
}

// atomicRuleViolations: "type T: atomic f, g" declares fields that several goroutines access without a lock and that are therefore
// required to have a sync/atomic type (all their accesses are then atomic by construction). Returns one message per broken declaration.
func (env *Env) atomicRuleViolations() (checked int, bad []string) {
	for _, td := range env.cs.Types {
		for _, c := range td.Clauses {
			if c.Kw != "atomic" {
				continue
			}
			st := env.findStruct(td.Pkg, td.Name)
			for _, f := range strings.Split(c.Text, ",") {
				f = strings.TrimSpace(f)
				if f == "" {
					continue
				}
				checked++
				if st == nil {
					bad = append(bad, td.Pkg+"."+td.Name+"."+f+": type not found")
					continue
				}
				found := false
				for i := 0; i < st.NumFields(); i++ {
					if st.Field(i).Name() != f {
						continue
					}
					found = true
					n, ok := types.Unalias(st.Field(i).Type()).(*types.Named)
					if !ok || n.Obj().Pkg() == nil || n.Obj().Pkg().Path() != "sync/atomic" {
						bad = append(bad, td.Pkg+"."+td.Name+"."+f+": declared atomic but has type "+st.Field(i).Type().String())
					}
				}
				if !found {
					bad = append(bad, td.Pkg+"."+td.Name+"."+f+": no such field")
				}
			}
		}
	}
	return
}

func (env *Env) findStruct(pkg, name string) *types.Struct {
	for _, p := range env.w.Pkgs {
		if p.Types == nil || shortPkg(p.Types.Path()) != pkg {
			continue
		}
		if obj := p.Types.Scope().Lookup(name); obj != nil {
			if st, ok := obj.Type().Underlying().(*types.Struct); ok {
				return st
			}
		}
	}
	return nil
}

// jsonTagViolations: "type T: jsontag Field \"tag\"" pins the wire name (and options) of a serialised field: the struct tag is outside
// what the symbolic model of encoding/json sees, yet it decides what is stored and what a consumer built from another version reads back.
func (env *Env) jsonTagViolations() (checked int, bad []string) {
	for _, td := range env.cs.Types {
		for _, c := range td.Clauses {
			if c.Kw != "jsontag" {
				continue
			}
			fs := strings.Fields(c.Text)
			if len(fs) != 2 {
				bad = append(bad, td.Pkg+"."+td.Name+": malformed jsontag clause "+c.Text)
				continue
			}
			field, want := fs[0], strings.Trim(fs[1], "\"")
			checked++
			st := env.findStruct(td.Pkg, td.Name)
			if st == nil {
				bad = append(bad, td.Pkg+"."+td.Name+"."+field+": type not found")
				continue
			}
			found := false
			for i := 0; i < st.NumFields(); i++ {
				if st.Field(i).Name() != field {
					continue
				}
				found = true
				got := reflectTag(st.Tag(i), "json")
				if got != want {
					bad = append(bad, fmt.Sprintf("%s.%s.%s: json tag is %q, contract pins %q", td.Pkg, td.Name, field, got, want))
				}
			}
			if !found {
				bad = append(bad, td.Pkg+"."+td.Name+"."+field+": no such field")
			}
		}
	}
	return
}

// reflectTag: value of key in a struct tag string (as reflect.StructTag.Get).
func reflectTag(tag, key string) string {
	for tag != "" {
		i := 0
		for i < len(tag) && tag[i] == ' ' {
			i++
		}
		tag = tag[i:]
		if tag == "" {
			break
		}
		i = 0
		for i < len(tag) && tag[i] > ' ' && tag[i] != ':' && tag[i] != '"' {
			i++
		}
		if i == 0 || i+1 >= len(tag) || tag[i] != ':' || tag[i+1] != '"' {
			break
		}
		name := tag[:i]
		tag = tag[i+1:]
		i = 1
		for i < len(tag) && tag[i] != '"' {
			if tag[i] == '\\' {
				i++
			}
			i++
		}
		if i >= len(tag) {
			break
		}
		val := tag[1:i]
		tag = tag[i+1:]
		if name == key {
			return val
		}
	}
	return ""
}
