package main

import (
	"fmt"
	"go/types"
	"strings"
)

// tgtDesc: one heap key named by a modifies target; base == nil means every index of the key.
type tgtDesc struct {
	key    string
	base   *Term
	prefix bool // key is a prefix (ghost state function at every argument sort)
	chanLen bool
	elem    types.Type
}

func (ec *EvalCtx) leafDescs(p PtrV, t types.Type, whole bool) []tgtDesc {
	st := ec.st
	var out []tgtDesc
	for _, lf := range leavesOf(t, "") {
		key, _ := st.leafSortKey(p, lf)
		d := tgtDesc{key: key}
		if !whole {
			b := p.Base
			d.base = &b
		}
		out = append(out, d)
	}
	return out
}

// describeTarget resolves a modifies target to heap keys (and the index it is restricted to).
func (ec *EvalCtx) describeTarget(tgt string) []tgtDesc {
	st := ec.st
	vc := st.vc
	tgt = strings.TrimSpace(tgt)
	if tgt == "" || tgt == "nothing" {
		return nil
	}
	if tgt == "$alloc" {
		vc.setKeySort(allocKey, arrSort(SInt, SBool))
		return []tgtDesc{{key: allocKey}}
	}
	if strings.HasPrefix(tgt, "key ") {
		k := strings.TrimSpace(tgt[4:])
		if strings.HasSuffix(k, "<") {
			return []tgtDesc{{key: k, prefix: true}}
		}
		return []tgtDesc{{key: k}}
	}
	elems, allElems := false, false
	if strings.HasSuffix(tgt, "[**]") {
		allElems = true
		tgt = strings.TrimSuffix(tgt, "[**]")
	} else if strings.HasSuffix(tgt, "[*]") {
		elems = true
		tgt = strings.TrimSuffix(tgt, "[*]")
	}
	e, err := parseCExpr(tgt)
	if err != nil {
		fail("bad modifies target %q: %v", tgt, err)
	}
	elemDescs := func(slT types.Type, arr *Term) []tgtDesc {
		el := sliceElem(slT)
		ep := PtrV{Kind: "elem", Root: typeRepr(el), Base: tInt(0), Idx: tInt(0), Elem: el}
		var out []tgtDesc
		for _, lf := range leavesOf(el, "") {
			key, _ := st.leafSortKey(ep, lf)
			out = append(out, tgtDesc{key: key, base: arr})
		}
		return out
	}
	isTypeName := func(x *CExpr) (types.Type, bool) {
		// Type or pkg.Type, not shadowed by a value name
		root := x
		for root.Kind == "sel" {
			root = root.Args[0]
		}
		if root.Kind != "ident" {
			return nil, false
		}
		if _, ok := ec.names[root.Name]; ok {
			return nil, false
		}
		if _, ok := ec.bound[root.Name]; ok {
			return nil, false
		}
		var t types.Type
		func() {
			defer func() {
				if r := recover(); r != nil {
					if _, ok := r.(unsupported); !ok {
						panic(r)
					}
				}
			}()
			t = ec.resolveType(x.String())
		}()
		return t, t != nil
	}
	switch e.Kind {
	case "ghost":
		if gd := vc.cs.Ghosts[e.Name]; gd != nil && strings.HasPrefix(gd.Sort, "fun ") {
			return []tgtDesc{{key: "G:$" + e.Name + "<", prefix: true}}
		}
		ec.ghostGlobal(e.Name)
		return []tgtDesc{{key: "G:$" + e.Name}}
	case "index":
		if e.Args[0].Kind == "ghost" {
			ec.ghostGlobal(e.Args[0].Name)
			i := ec.evalTerm(e.Args[1])
			return []tgtDesc{{key: "G:$" + e.Args[0].Name, base: &i}}
		}
	case "call":
		if strings.HasPrefix(e.Name, "$") {
			if gd := vc.cs.Ghosts[e.Name[1:]]; gd != nil && strings.HasPrefix(gd.Sort, "fun ") {
				x := ec.evalTerm(e.Args[0])
				key, _ := ec.ghostFunArr(e.Name[1:], x.Sort)
				return []tgtDesc{{key: key, base: &x}}
			}
		}
		if e.Name == "$deref" {
			v := ec.eval(e.Args[0])
			p, ok := ec.ptrOf(v)
			if !ok {
				fail("modifies $deref: not a pointer")
			}
			return ec.leafDescs(p, p.Elem, false)
		}
		if e.Name == "$cap" || e.Name == "$open" || e.Name == "$chan" {
			if tv, ok := ec.eval(e.Args[0]).(TV); ok && tv.Typ != nil {
				st.setChanElem(tv.Typ)
			} else {
				fail("modifies %s: channel of unknown type", tgt)
			}
		}
		if e.Name == "$cap" {
			ch := ec.evalTerm(e.Args[0])
			return []tgtDesc{{key: st.chanKey("cap"), base: &ch}}
		}
		if e.Name == "$open" {
			ch := ec.evalTerm(e.Args[0])
			return []tgtDesc{{key: st.chanKey("open"), base: &ch}}
		}
		if e.Name == "$chan" {
			ch := ec.evalTerm(e.Args[0])
			return []tgtDesc{{key: st.chanKey("sent"), base: &ch}, {key: st.chanKey("rcvd"), base: &ch, chanLen: true, elem: st.curChanElem}, {key: "CHV:<" + typeRepr(st.curChanElem) + ">", prefix: true}}
		}
	case "ident":
		if v, ok := ec.names[e.Name]; ok {
			if p, ok := ec.ptrOf(v); ok {
				return ec.leafDescs(p, p.Elem, false)
			}
		}
	case "sel":
		if t, ok := isTypeName(e.Args[0]); ok {
			// type-wide: Type.field
			root := rootName(t)
			if strings.HasPrefix(e.Name, "$") {
				return []tgtDesc{{key: objKey(root, e.Name)}}
			}
			p := PtrV{Kind: "obj", Root: root, Base: tInt(0), Elem: t}
			np, ok := fieldPtr(p, e.Name)
			if !ok {
				fail("modifies %s.%s: no such field", root, e.Name)
			}
			if elems || allElems {
				return elemDescs(np.Elem, nil)
			}
			return ec.leafDescs(np, np.Elem, true)
		}
		var x Val
		var p PtrV
		var ok bool
		if ap, isAddr := ec.addrOf(e.Args[0]); isAddr {
			x, p, ok = ap, ap, true
		} else {
			x = ec.eval(e.Args[0])
			p, ok = ec.ptrOf(x)
		}
		if !ok {
			fail("modifies target %q: not a pointer", tgt)
		}
		if strings.HasPrefix(e.Name, "$") {
			ec.ghostField(x, e.Name[1:])
			b := p.Base
			return []tgtDesc{{key: objKey(p.Root, joinPath(p.Path, e.Name)), base: &b}}
		}
		np, ok := fieldPtr(p, e.Name)
		if !ok {
			fail("modifies target %q: no field %s", tgt, e.Name)
		}
		if allElems {
			return elemDescs(np.Elem, nil)
		}
		if elems {
			sv, ok := st.load(np, ec.inOld).(SliceV)
			if !ok {
				fail("modifies %q[*]: not a slice", tgt)
			}
			a := sv.Arr
			return elemDescs(np.Elem, &a)
		}
		return ec.leafDescs(np, np.Elem, false)
	}
	fail("unsupported modifies target %q", tgt)
	return nil
}

// havocTarget: make the named location(s) unconstrained in the current state.
func (ec *EvalCtx) havocTarget(tgt string) {
	ec.havocDescs(ec.describeTarget(tgt))
}

// havocTargets: all targets are resolved in the state before any of them is havocked (so that `modifies x.f, $open(x.f)` means the old x.f).
func (ec *EvalCtx) havocTargets(tgts []string) {
	var all []tgtDesc
	var later []string
	for _, t := range tgts {
		if strings.Contains(t, "result") {
			// locations reached through the result exist only after the call: resolved one by one, in order, in the new state
			later = append(later, t)
			continue
		}
		all = append(all, ec.describeTarget(t)...)
	}
	ec.havocDescs(all)
	for _, t := range later {
		ec.havocDescs(ec.describeTarget(t))
	}
}

func (ec *EvalCtx) havocDescs(descs []tgtDesc) {
	st := ec.st
	vc := st.vc
	for _, d := range descs {
		switch {
		case d.key == allocKey:
			old := st.get(allocKey)
			nw := st.havocKey(allocKey)
			st.addLine(fmt.Sprintf("(assert (forall ((r Int)) (! (=> (select %s r) (select %s r)) :pattern ((select %s r)))))", old.S, nw.S, old.S))
		case d.prefix:
			for k := range vc.keySort {
				if strings.HasPrefix(k, d.key) {
					st.havocKey(k)
				}
			}
			st.nonnil["pendinghavocprefix:"+d.key] = true
			delete(st.nonnil, "pendingloopprefix:"+d.key)
			for k := range st.nonnil {
				if strings.HasPrefix(k, "seen:"+d.key) {
					delete(st.nonnil, k)
				}
			}
		case d.base == nil:
			if _, ok := vc.keySort[d.key]; ok {
				st.havocKey(d.key)
			} else {
				st.nonnil["pendinghavoc:"+d.key] = true
				delete(st.nonnil, "pendingloophavoc:"+d.key)
			}
		default:
			arr := st.get(d.key)
			_, es, ok := arrayParts(arr.Sort)
			if !ok {
				st.havocKey(d.key)
				continue
			}
			nv := st.declare("mv", es)
			st.set(d.key, tStore(arr, *d.base, nv))
			if d.chanLen {
				st.curChanElem = d.elem
				st.chanWF(*d.base)
			}
		}
	}
}

// frameCheck: at the return of the function under contract, every heap key that differs from the entry state must be covered by the
// function's own modifies clauses (objects allocated during the call are exempt).
func (st *State) frameCheck(names map[string]Val) {
	for _, g := range st.frameGoals(names, nil) {
		st.oblige("frame", g.label, g.goal, g.info)
	}
}

type frameGoal struct {
	label, info string
	goal        Term
}

// frameGoals: the frame condition of the function under contract as a list of per-key goals over the current state.
// If only != nil, goals are produced exactly for those keys (used to re-assume the frame after a loop havoc).
func (st *State) frameGoals(names map[string]Val, only map[string]bool) []frameGoal {
	vc := st.vc
	var out []frameGoal
	if vc.fc == nil {
		return nil
	}
	type cover struct {
		whole bool
		bases []Term
	}
	cov := map[string]*cover{}
	var prefixes []string
	ec := &EvalCtx{st: st, names: names, pkg: vc.fn.Pkg.Pkg, tparams: vc.tparamEnv(vc.fn), inOld: true}
	for _, c := range vc.fc.clauses("modifies") {
		if c.Mode != "" && c.Mode != vc.mode {
			continue
		}
		for _, tgt := range splitTargets(c.Text) {
			for _, d := range ec.describeTarget(tgt) {
				if d.prefix {
					prefixes = append(prefixes, d.key)
					continue
				}
				cv := cov[d.key]
				if cv == nil {
					cv = &cover{}
					cov[d.key] = cv
				}
				if d.base == nil {
					cv.whole = true
				} else {
					cv.bases = append(cv.bases, *d.base)
				}
			}
		}
	}
	vc.setKeySort(allocKey, arrSort(SInt, SBool))
	alloc0 := st.get0(allocKey)
	for _, k := range sortedKeys(st.heap) {
		cur := st.heap[k]
		init, ok := st.heap0[k]
		if only != nil && !only[k] {
			continue
		}
		if ok && init.S == cur.S {
			continue
		}
		if !ok {
			// key first created after a havoc: compare with its entry constant
			init = st.get0(k)
		}
		covered := false
		for _, p := range prefixes {
			if strings.HasPrefix(k, p) {
				covered = true
			}
		}
		cv := cov[k]
		if covered || (cv != nil && cv.whole) {
			continue
		}
		label := strings.NewReplacer(" ", "", "(", "<", ")", ">").Replace(k)
		if k == allocKey {
			out = append(out, frameGoal{label, "function allocates but its contract does not list $alloc in modifies", tFalse})
			continue
		}
		is, _, isArr := arrayParts(cur.Sort)
		if !isArr {
			out = append(out, frameGoal{label, "changed but not listed in modifies: " + k, tEq(cur, init)})
			continue
		}
		r := Term{"fr", is}
		var conds []Term
		if is == SInt && !strings.HasPrefix(k, "G:") {
			conds = append(conds, tSelect(alloc0, r))
		}
		if cv != nil {
			for _, b := range cv.bases {
				conds = append(conds, tNot(tEq(r, b)))
			}
		}
		body := tImp(tAnd(conds...), tEq(tSelect(cur, r), tSelect(init, r)))
		goal := Term{fmt.Sprintf("(forall ((fr %s)) %s)", is, body.S), SBool}
		out = append(out, frameGoal{label, "only the locations listed in modifies (and fresh objects) change in " + k, goal})
	}
	return out
}

// addrOf: the address denoted by a selector chain through value-embedded structs (x.a.b where a is a struct field by value).
func (ec *EvalCtx) addrOf(e *CExpr) (PtrV, bool) {
	if e.Kind != "sel" || strings.HasPrefix(e.Name, "$") {
		return PtrV{}, false
	}
	var base PtrV
	if bp, ok := ec.addrOf(e.Args[0]); ok {
		base = bp
	} else {
		var v Val
		func() {
			defer func() {
				if r := recover(); r != nil {
					if _, ok := r.(unsupported); !ok {
						panic(r)
					}
				}
			}()
			v = ec.eval(e.Args[0])
		}()
		if v == nil {
			return PtrV{}, false
		}
		p, ok := ec.ptrOf(v)
		if !ok {
			return PtrV{}, false
		}
		base = p
	}
	np, ok := fieldPtr(base, e.Name)
	if !ok {
		return PtrV{}, false
	}
	if classify(np.Elem) != kStruct {
		return PtrV{}, false
	}
	np.Typ = types.NewPointer(np.Elem)
	return np, true
}
