package main

import (
	"fmt"
	"go/types"
	"strings"

	"golang.org/x/tools/go/ssa"
)

// ---------- symbolic values ----------

type Val interface{}

// TV: scalar value (ints, bools, refs, interface values, strings, type-parameter values).
type TV struct {
	T   Term
	Typ types.Type
}

// StructV: struct by value, one Val per field (recursively).
type StructV struct {
	Typ types.Type
	F   []Val
}

// SliceV: slice header.
type SliceV struct {
	Arr, Off, Len, Cap Term
	Typ                types.Type // the slice type
}

type TupleV struct{ E []Val }

// PtrV: interior pointer into a region. Kind: "obj" (struct object, key F:<root>.<path>), "elem" (slice backing array element, key E:<elem>[.<path>]),
// "cell" (heap cell of non-struct type, key C:<repr>), "local" (engine-side local cell).
type PtrV struct {
	Kind  string
	Root  string     // obj: qualified root struct name
	Base  Term       // ref of the object / backing array / cell
	Idx   Term       // elem: index into the backing array
	Path  string     // field path inside the region ("" = whole)
	Elem  types.Type // pointee type
	Local *localCell
	Typ   types.Type // pointer type
}

type localCell struct {
	id  int
	typ types.Type
}

// FuncV: function value known statically.
type FuncV struct {
	Fn   *ssa.Function
	Bind []Val
	Typ  types.Type
}

// ---------- type classification ----------

type tkind int

const (
	kScalar tkind = iota
	kStruct
	kSlice
	kTuple
	kLock   // sync.Mutex / RWMutex: no memory leaf
	kOpaque // sync.Pool, sync.Once ...: no memory leaf
)

func qualifiedName(n *types.Named) string {
	o := n.Obj()
	if o.Pkg() == nil {
		return o.Name()
	}
	return shortPkg(o.Pkg().Path()) + "." + o.Name()
}

// specialScalarSort: named std types represented as a single scalar leaf.
func specialScalarSort(n *types.Named) (string, bool) {
	switch qualifiedName(n) {
	case "sync/atomic.Uint32", "sync/atomic.Uint64", "sync/atomic.Int32", "sync/atomic.Int64", "sync.WaitGroup", "time.Time", "sync/atomic.Value", "time.Duration":
		return SInt, true
	case "sync/atomic.Bool":
		return SBool, true
	}
	return "", false
}

// tpSubst: substitution of type parameters of inlined generic callees by the caller's types (type parameters are unique objects,
// so one map serves all active frames). Reset per VC.
var tpSubst = map[*types.TypeParam]types.Type{}

func resolveTP(t types.Type) types.Type {
	t = types.Unalias(t)
	for i := 0; i < 8; i++ {
		tp, ok := t.(*types.TypeParam)
		if !ok {
			return t
		}
		if r, ok := tpSubst[tp]; ok {
			t = types.Unalias(r)
			continue
		}
		// a type parameter with a slice core type (S ~[]E) behaves as that slice
		if ct := coreSlice(tp); ct != nil {
			return ct
		}
		return t
	}
	return t
}

func coreSlice(tp *types.TypeParam) types.Type {
	it, ok := tp.Constraint().Underlying().(*types.Interface)
	if !ok || it.NumEmbeddeds() != 1 {
		return nil
	}
	u, ok := it.EmbeddedType(0).(*types.Union)
	if !ok || u.Len() != 1 {
		return nil
	}
	if sl, ok := u.Term(0).Type().Underlying().(*types.Slice); ok {
		return sl
	}
	return nil
}

func classify(t types.Type) tkind {
	t = resolveTP(t)
	if n, ok := t.(*types.Named); ok {
		if _, ok := specialScalarSort(n); ok {
			return kScalar
		}
		switch qualifiedName(n) {
		case "sync.Mutex", "sync.RWMutex":
			return kLock
		case "sync.Pool", "sync.Once", "sync.Cond":
			return kOpaque
		}
	}
	switch u := t.Underlying().(type) {
	case *types.Struct:
		_ = u
		return kStruct
	case *types.Slice:
		return kSlice
	case *types.Tuple:
		return kTuple
	}
	return kScalar
}

// sortOf: SMT sort of a scalar Go type.
func sortOf(t types.Type) string {
	t = resolveTP(t)
	if n, ok := t.(*types.Named); ok {
		if s, ok := specialScalarSort(n); ok {
			return s
		}
	}
	if tp, ok := t.(*types.TypeParam); ok {
		return "TP_" + tp.Obj().Name()
	}
	switch u := t.Underlying().(type) {
	case *types.Basic:
		switch {
		case u.Info()&types.IsBoolean != 0:
			return SBool
		case u.Info()&types.IsString != 0:
			return SStr
		case u.Info()&types.IsInteger != 0:
			return SInt
		case u.Kind() == types.UnsafePointer, u.Kind() == types.UntypedNil:
			return SInt
		case u.Info()&types.IsFloat != 0:
			return "Real"
		}
		return SInt
	case *types.Interface:
		if _, ok := t.(*types.TypeParam); ok {
			return "TP_" + t.(*types.TypeParam).Obj().Name()
		}
		return SInt
	}
	return SInt
}

// intRange returns (lo, hi, true) for machine integer types.
func intRange(t types.Type) (string, string, bool) {
	t = types.Unalias(t)
	if n, ok := t.(*types.Named); ok {
		switch qualifiedName(n) {
		case "sync/atomic.Uint32":
			return "0", "4294967295", true
		case "sync/atomic.Uint64":
			return "0", "18446744073709551615", true
		case "sync/atomic.Int32":
			return "(- 2147483648)", "2147483647", true
		case "sync/atomic.Int64", "time.Duration":
			return "(- 9223372036854775808)", "9223372036854775807", true
		}
	}
	b, ok := t.Underlying().(*types.Basic)
	if !ok {
		return "", "", false
	}
	switch b.Kind() {
	case types.Int, types.Int64:
		return "(- 9223372036854775808)", "9223372036854775807", true
	case types.Int32:
		return "(- 2147483648)", "2147483647", true
	case types.Int16:
		return "(- 32768)", "32767", true
	case types.Int8:
		return "(- 128)", "127", true
	case types.Uint, types.Uint64, types.Uintptr:
		return "0", "18446744073709551615", true
	case types.Uint32:
		return "0", "4294967295", true
	case types.Uint16:
		return "0", "65535", true
	case types.Uint8:
		return "0", "255", true
	}
	return "", "", false
}

func intModulus(t types.Type) (string, bool, bool) { // modulus, signed, ok
	b, ok := types.Unalias(t).Underlying().(*types.Basic)
	if !ok {
		return "", false, false
	}
	switch b.Kind() {
	case types.Int, types.Int64:
		return "18446744073709551616", true, true
	case types.Int32:
		return "4294967296", true, true
	case types.Int16:
		return "65536", true, true
	case types.Int8:
		return "256", true, true
	case types.Uint, types.Uint64, types.Uintptr:
		return "18446744073709551616", false, true
	case types.Uint32:
		return "4294967296", false, true
	case types.Uint16:
		return "65536", false, true
	case types.Uint8:
		return "256", false, true
	}
	return "", false, false
}

// typeRepr: short stable text for a type, used in heap keys.
func typeRepr(t types.Type) string {
	t = resolveTP(t)
	switch x := t.(type) {
	case *types.Named:
		s := qualifiedName(x)
		if ta := x.TypeArgs(); ta != nil && ta.Len() > 0 {
			var as []string
			for i := 0; i < ta.Len(); i++ {
				as = append(as, typeRepr(ta.At(i)))
			}
			s += "[" + strings.Join(as, ",") + "]"
		}
		return s
	case *types.Pointer:
		return "*" + typeRepr(x.Elem())
	case *types.TypeParam:
		return "TP_" + x.Obj().Name()
	case *types.Slice:
		return "[]" + typeRepr(x.Elem())
	case *types.Basic:
		return x.Name()
	case *types.Interface:
		if x.NumMethods() == 0 {
			return "any"
		}
		return "iface"
	case *types.Chan:
		return "chan"
	case *types.Signature:
		return "func"
	case *types.Struct:
		return "struct"
	}
	return "t"
}

// leaf describes one memory leaf of a type: sub-path and Go type (scalar).
type leaf struct {
	path string
	typ  types.Type
	sort string
}

func joinPath(a, b string) string {
	if a == "" {
		return b
	}
	if b == "" {
		return a
	}
	return a + "." + b
}

// leavesOf enumerates the scalar leaves of a value of type t at path prefix.
func leavesOf(t types.Type, prefix string) []leaf {
	t = resolveTP(t)
	switch classify(t) {
	case kScalar:
		return []leaf{{prefix, t, sortOf(t)}}
	case kSlice:
		return []leaf{{joinPath(prefix, "#arr"), types.Typ[types.Int], SInt},
			{joinPath(prefix, "#len"), types.Typ[types.Int], SInt}, {joinPath(prefix, "#cap"), types.Typ[types.Int], SInt}}
	case kStruct:
		st := t.Underlying().(*types.Struct)
		var out []leaf
		for i := 0; i < st.NumFields(); i++ {
			f := st.Field(i)
			out = append(out, leavesOf(f.Type(), joinPath(prefix, f.Name()))...)
		}
		return out
	}
	return nil
}

func rootName(t types.Type) string {
	t = types.Unalias(t)
	if n, ok := t.(*types.Named); ok {
		return qualifiedName(n)
	}
	return "anon." + typeRepr(t)
}

func derefType(t types.Type) types.Type {
	if p, ok := resolveTP(t).Underlying().(*types.Pointer); ok {
		return p.Elem()
	}
	return nil
}

func fmtVal(v Val) string {
	switch x := v.(type) {
	case TV:
		return x.T.S
	case SliceV:
		return fmt.Sprintf("slice(%s,%s,%s,%s)", x.Arr.S, x.Off.S, x.Len.S, x.Cap.S)
	case StructV:
		var fs []string
		for _, f := range x.F {
			fs = append(fs, fmtVal(f))
		}
		return "{" + strings.Join(fs, ",") + "}"
	case PtrV:
		return fmt.Sprintf("&%s[%s].%s", x.Kind+":"+x.Root, x.Base.S, x.Path)
	case FuncV:
		return "func:" + x.Fn.Name()
	case TupleV:
		var fs []string
		for _, f := range x.E {
			fs = append(fs, fmtVal(f))
		}
		return "(" + strings.Join(fs, ",") + ")"
	}
	return fmt.Sprintf("%v", v)
}

func sliceElem(t types.Type) types.Type {
	if sl, ok := resolveTP(t).Underlying().(*types.Slice); ok {
		return sl.Elem()
	}
	fail("not a slice type: %s", t)
	return nil
}
