package main

import (
	"fmt"
	"go/constant"
	"go/types"
	"strings"

	"golang.org/x/tools/go/ssa"
)

// EvalCtx evaluates contract expressions against a symbolic state.
type EvalCtx struct {
	st      *State
	names   map[string]Val
	pkg     *types.Package
	tparams map[string]types.Type
	bound   map[string]Val
	inOld   bool
	callee  bool
}

func (ec *EvalCtx) child() *EvalCtx {
	n := *ec
	n.bound = map[string]Val{}
	for k, v := range ec.bound {
		n.bound[k] = v
	}
	return &n
}

func (ec *EvalCtx) evalBool(e *CExpr) Term {
	t := ec.evalTerm(e)
	if t.Sort != SBool {
		fail("contract expression %s is not boolean (sort %s)", e, t.Sort)
	}
	return t
}

func (ec *EvalCtx) evalTerm(e *CExpr) Term {
	v := ec.eval(e)
	switch x := v.(type) {
	case TV:
		return x.T
	case PtrV:
		return ec.st.encodePtr(x)
	case FuncV:
		return ec.st.encodeFunc(x)
	}
	fail("contract expression %s does not denote a scalar (%T)", e, v)
	return Term{}
}

var specialConsts = map[string]string{
	"MaxInt": "9223372036854775807", "MinInt": "(- 9223372036854775808)", "MaxUint32": "4294967295", "MaxUint64": "18446744073709551615",
	"MaxUint8": "255", "MaxInt32": "2147483647",
}

func (ec *EvalCtx) eval(e *CExpr) Val {
	st := ec.st
	switch e.Kind {
	case "int":
		return TV{tIntStr(e.Lit), types.Typ[types.Int]}
	case "str":
		return TV{st.vc.strLit(e.Lit), types.Typ[types.String]}
	case "ident":
		return ec.ident(e.Name)
	case "ghost":
		return ec.ghostGlobal(e.Name)
	case "old":
		n := ec.child()
		n.inOld = true
		return n.eval(e.Args[0])
	case "un":
		a := ec.evalTerm(e.Args[0])
		if e.Op == "!" {
			return TV{tNot(a), types.Typ[types.Bool]}
		}
		return TV{app("-", SInt, a), types.Typ[types.Int]}
	case "ite":
		c := ec.evalBool(e.Args[0])
		a := ec.evalTerm(e.Args[1])
		b := ec.evalTerm(e.Args[2])
		return TV{tIte(c, a, b), nil}
	case "bin":
		return ec.bin(e)
	case "sel":
		return ec.sel(e)
	case "index":
		return ec.index(e)
	case "call":
		return ec.call(e)
	case "spec":
		return ec.st.vc.spec.apply(ec, e)
	case "forall", "exists":
		return ec.quant(e)
	}
	fail("cannot evaluate contract expression %s", e)
	return nil
}

func (ec *EvalCtx) ident(name string) Val {
	st := ec.st
	if v, ok := ec.bound[name]; ok {
		return v
	}
	switch name {
	case "true":
		return TV{tTrue, types.Typ[types.Bool]}
	case "false":
		return TV{tFalse, types.Typ[types.Bool]}
	case "nil":
		return TV{tInt(0), types.Typ[types.UntypedNil]}
	}
	if v, ok := ec.names[name]; ok {
		return v
	}
	if v, ok := ec.names["&"+name]; ok {
		// address-taken local: read through its address
		switch p := v.(type) {
		case PtrV:
			return st.load(p, ec.inOld)
		case TV:
			return st.load(st.asPtr(p, p.Typ), ec.inOld)
		}
	}
	if v, ok := st.ghostLocals[name]; ok {
		return v
	}
	if st.fr != nil {
		for fr := st.fr.parent; fr != nil; fr = fr.parent {
			if v, ok := fr.names[name]; ok {
				return v
			}
		}
	}
	if s, ok := specialConsts[name]; ok {
		return TV{Term{s, SInt}, types.Typ[types.Int]}
	}
	if ec.pkg != nil {
		if obj := ec.pkg.Scope().Lookup(name); obj != nil {
			switch o := obj.(type) {
			case *types.Const:
				return ec.constVal(o)
			case *types.Var:
				return ec.globalVal(o)
			}
		}
	}
	fail("contract names unknown identifier %q", name)
	return nil
}

func (ec *EvalCtx) constVal(o *types.Const) Val {
	switch o.Val().Kind() {
	case constant.Bool:
		return TV{tBool(constant.BoolVal(o.Val())), o.Type()}
	case constant.Int:
		return TV{tIntStr(o.Val().ExactString()), o.Type()}
	case constant.String:
		return TV{ec.st.vc.strLit(constant.StringVal(o.Val())), o.Type()}
	}
	fail("unsupported constant %s", o.Name())
	return nil
}

func (ec *EvalCtx) globalVal(o *types.Var) Val {
	st := ec.st
	name := shortPkg(o.Pkg().Path()) + "." + o.Name()
	p := PtrV{Kind: "cell", Root: "global." + name, Base: tInt(1), Elem: o.Type()}
	v := st.load(p, ec.inOld)
	st.vc.noteGlobal(st, name, o, v)
	return v
}

// ghostGlobal: a global ghost map/value "G:$name".
func (ec *EvalCtx) ghostGlobal(name string) Val {
	st := ec.st
	if v, ok := st.ghostLocals["$"+name]; ok {
		return v
	}
	gd := st.vc.cs.Ghosts[name]
	key := "G:$" + name
	if gd != nil {
		st.vc.setKeySort(key, gd.Sort)
	} else if _, ok := st.vc.keySort[key]; !ok {
		if srt, ok := builtinGhostSort(name); ok {
			st.vc.setKeySort(key, srt)
		} else {
			fail("undeclared ghost $%s", name)
		}
	}
	if ec.inOld {
		return TV{st.oldGet(key), nil}
	}
	return TV{st.get(key), nil}
}

// ghostFunArr: the array behind a ghost state function for a given argument sort.
func (ec *EvalCtx) ghostFunArr(name, argSort string) (string, Term) {
	st := ec.st
	gd := st.vc.cs.Ghosts[name]
	val := strings.TrimSpace(strings.TrimPrefix(gd.Sort, "fun "))
	key := "G:$" + name + "<" + argSort + ">"
	st.vc.setKeySort(key, arrSort(argSort, val))
	if ec.inOld {
		return key, st.oldGet(key)
	}
	return key, st.get(key)
}

func builtinGhostSort(name string) (string, bool) {
	switch {
	case name == "spawned":
		return arrSort(SStr, SInt), true
	case name == "signalled":
		return arrSort(SInt, SBool), true
	case name == "sends", name == "closes", name == "broadcasts", name == "condsignals", name == "wgdone", name == "tickerStopped":
		return arrSort(SInt, SInt), true
	case name == "usercalls":
		return SInt, true
	case strings.HasPrefix(name, "spawned."):
		return SInt, true
	}
	return "", false
}

func (ec *EvalCtx) bin(e *CExpr) Val {
	bt := types.Typ[types.Bool]
	switch e.Op {
	case "&&":
		return TV{tAnd(ec.evalBool(e.Args[0]), ec.evalBool(e.Args[1])), bt}
	case "||":
		return TV{tOr(ec.evalBool(e.Args[0]), ec.evalBool(e.Args[1])), bt}
	case "==>":
		return TV{tImp(ec.evalBool(e.Args[0]), ec.evalBool(e.Args[1])), bt}
	case "<==>":
		return TV{tEq(ec.evalBool(e.Args[0]), ec.evalBool(e.Args[1])), bt}
	case "==", "!=":
		a := ec.eval(e.Args[0])
		b := ec.eval(e.Args[1])
		r := ec.valEq(a, b, e)
		if e.Op == "!=" {
			r = tNot(r)
		}
		return TV{r, bt}
	case "in":
		a := ec.evalTerm(e.Args[0])
		s := ec.evalTerm(e.Args[1])
		return TV{tSelect(s, a), bt}
	}
	a := ec.evalTerm(e.Args[0])
	b := ec.evalTerm(e.Args[1])
	it := types.Typ[types.Int]
	switch e.Op {
	case "+":
		return TV{tAdd(a, b), it}
	case "-":
		return TV{tSub(a, b), it}
	case "*":
		return TV{tMul(a, b), it}
	case "/":
		ec.st.vc.modules["base"] = true
		return TV{app("goquo", SInt, a, b), it}
	case "%":
		ec.st.vc.modules["base"] = true
		return TV{app("gorem", SInt, a, b), it}
	case "<":
		return TV{tLt(a, b), bt}
	case "<=":
		return TV{tLe(a, b), bt}
	case ">":
		return TV{tGt(a, b), bt}
	case ">=":
		return TV{tGe(a, b), bt}
	}
	fail("unknown operator %s", e.Op)
	return nil
}

func (ec *EvalCtx) valEq(a, b Val, e *CExpr) Term {
	// interior pointers: nil iff the enclosing object is nil; equal iff same object and path
	if pa, ok := a.(PtrV); ok && pa.Path != "" {
		if tb, ok := b.(TV); ok && tb.T.S == "0" {
			return tEq(pa.Base, tInt(0))
		}
		if pb, ok := b.(PtrV); ok && pb.Path == pa.Path && pb.Root == pa.Root {
			return tEq(pa.Base, pb.Base)
		}
	}
	if pb, ok := b.(PtrV); ok && pb.Path != "" {
		if ta, ok := a.(TV); ok && ta.T.S == "0" {
			return tEq(pb.Base, tInt(0))
		}
	}
	switch x := a.(type) {
	case SliceV:
		y, ok := b.(SliceV)
		if !ok {
			if tv, isTV := b.(TV); isTV && tv.T.S == "0" { // s == nil
				return tAnd(tEq(x.Arr, tInt(0)), tEq(x.Len, tInt(0)))
			}
			fail("comparing slice with %T in %s", b, e)
		}
		return tAnd(tEq(x.Arr, y.Arr), tEq(x.Off, y.Off), tEq(x.Len, y.Len), tEq(x.Cap, y.Cap))
	case StructV:
		y, ok := b.(StructV)
		if !ok || len(x.F) != len(y.F) {
			fail("comparing struct with %T in %s", b, e)
		}
		var cs []Term
		for i := range x.F {
			cs = append(cs, ec.valEq(x.F[i], y.F[i], e))
		}
		return tAnd(cs...)
	}
	ta, tb := ec.st.termOf(a), ec.st.termOf(b)
	if ta.Sort != tb.Sort {
		// nil against a type-parameter-sorted value etc.
		fail("sort mismatch in %s: %s vs %s", e, ta.Sort, tb.Sort)
	}
	return tEq(ta, tb)
}

// sel: x.f
func (ec *EvalCtx) sel(e *CExpr) Val {
	st := ec.st
	// package-qualified identifier?
	if e.Args[0].Kind == "ident" {
		if _, isName := ec.names[e.Args[0].Name]; !isName {
			if _, isBound := ec.bound[e.Args[0].Name]; !isBound {
				if p := ec.findPkg(e.Args[0].Name); p != nil {
					sub := *ec
					sub.pkg = p
					return sub.ident(e.Name)
				}
			}
		}
	}
	x := ec.eval(e.Args[0])
	if strings.HasPrefix(e.Name, "$") {
		return ec.ghostField(x, e.Name[1:])
	}
	switch v := x.(type) {
	case StructV:
		s := v.Typ.Underlying().(*types.Struct)
		for i := 0; i < s.NumFields(); i++ {
			if s.Field(i).Name() == e.Name {
				return v.F[i]
			}
		}
		// promoted through embedded fields
		for i := 0; i < s.NumFields(); i++ {
			if s.Field(i).Embedded() {
				if sv, ok := v.F[i].(StructV); ok {
					if r, ok := trySelStruct(sv, e.Name); ok {
						return r
					}
				}
			}
		}
		fail("no field %s in %s", e.Name, v.Typ)
	case TV, PtrV:
		p, ok := ec.ptrOf(x)
		if !ok {
			fail("selector %s on non-pointer %s", e.Name, e.Args[0])
		}
		np, ok := fieldPtr(p, e.Name)
		if !ok {
			fail("no field %s in %s", e.Name, p.Elem)
		}
		return st.load(np, ec.inOld)
	}
	fail("selector %s on %T", e.Name, x)
	return nil
}

func trySelStruct(v StructV, name string) (Val, bool) {
	s := v.Typ.Underlying().(*types.Struct)
	for i := 0; i < s.NumFields(); i++ {
		if s.Field(i).Name() == name {
			return v.F[i], true
		}
	}
	return nil, false
}

func (ec *EvalCtx) findPkg(name string) *types.Package {
	if ec.pkg == nil {
		return nil
	}
	for _, imp := range ec.pkg.Imports() {
		if imp.Name() == name {
			return imp
		}
	}
	return nil
}

// ptrOf: view a value as pointer to a struct (for field selection).
func (ec *EvalCtx) ptrOf(x Val) (PtrV, bool) {
	switch v := x.(type) {
	case PtrV:
		return v, true
	case TV:
		if v.Typ == nil {
			return PtrV{}, false
		}
		if derefType(v.Typ) == nil {
			return PtrV{}, false
		}
		return ec.st.asPtr(v, v.Typ), true
	}
	return PtrV{}, false
}

// fieldPtr: pointer to field name of the struct p points to (handles promoted fields through embedded structs by value).
func fieldPtr(p PtrV, name string) (PtrV, bool) {
	s, ok := p.Elem.Underlying().(*types.Struct)
	if !ok {
		return PtrV{}, false
	}
	for i := 0; i < s.NumFields(); i++ {
		f := s.Field(i)
		if f.Name() == name {
			np := p
			np.Path = joinPath(p.Path, f.Name())
			np.Elem = f.Type()
			return reroot(np), true
		}
	}
	for i := 0; i < s.NumFields(); i++ {
		f := s.Field(i)
		if f.Embedded() {
			if _, isStruct := f.Type().Underlying().(*types.Struct); isStruct && classify(f.Type()) == kStruct {
				np := p
				np.Path = joinPath(p.Path, f.Name())
				np.Elem = f.Type()
				if r, ok := fieldPtr(np, name); ok {
					return r, true
				}
			}
		}
	}
	return PtrV{}, false
}

// ghostField: x.$g declared with "type T: ghost $g <sort>"
func (ec *EvalCtx) ghostField(x Val, g string) Val {
	st := ec.st
	p, ok := ec.ptrOf(x)
	if !ok {
		fail("ghost field $%s on non-pointer", g)
	}
	root := p.Root
	td := st.vc.cs.Types[root]
	srt := ""
	if td != nil {
		for _, c := range td.Clauses {
			if c.Kw == "ghost" {
				fs := strings.SplitN(strings.TrimSpace(c.Text), " ", 2)
				if len(fs) == 2 && fs[0] == "$"+g {
					srt = strings.TrimSpace(fs[1])
				}
			}
		}
	}
	if srt == "" {
		fail("ghost field $%s not declared on type %s", g, root)
	}
	key := objKey(root, joinPath(p.Path, "$"+g))
	st.vc.setKeySort(key, arrSort(SInt, srt))
	var arr Term
	if ec.inOld {
		arr = st.oldGet(key)
	} else {
		arr = st.get(key)
	}
	return TV{tSelect(arr, p.Base), nil}
}

func (ec *EvalCtx) index(e *CExpr) Val {
	st := ec.st
	x := ec.eval(e.Args[0])
	i := ec.evalTerm(e.Args[1])
	switch v := x.(type) {
	case SliceV:
		el := sliceElem(v.Typ)
		p := PtrV{Kind: "elem", Root: typeRepr(el), Base: v.Arr, Idx: tAdd(v.Off, i), Elem: el}
		if v.Off.S == "0" {
			p.Idx = i
		}
		return st.load(p, ec.inOld)
	case TV:
		if _, _, ok := arrayParts(v.T.Sort); ok {
			return TV{tSelect(v.T, i), nil}
		}
	}
	fail("indexing %s", e.Args[0])
	return nil
}

func (ec *EvalCtx) call(e *CExpr) Val {
	st := ec.st
	vc := st.vc
	it := types.Typ[types.Int]
	bt := types.Typ[types.Bool]
	arg := func(i int) Val { return ec.eval(e.Args[i]) }
	argT := func(i int) Term { return ec.evalTerm(e.Args[i]) }
	switch e.Name {
	case "len":
		switch v := arg(0).(type) {
		case SliceV:
			return TV{v.Len, it}
		case TV:
			if v.T.Sort == SStr {
				vc.strLits["fun.strlen"] = "(Str) Int"
				return TV{app("strlen", SInt, v.T), it}
			}
		}
		fail("len of %s", e.Args[0])
	case "cap":
		if v, ok := arg(0).(SliceV); ok {
			return TV{v.Cap, it}
		}
		fail("cap of %s", e.Args[0])
	case "arr":
		if v, ok := arg(0).(SliceV); ok {
			return TV{v.Arr, it}
		}
		fail("arr of %s", e.Args[0])
	case "off":
		if v, ok := arg(0).(SliceV); ok {
			return TV{v.Off, it}
		}
		fail("off of %s", e.Args[0])
	case "$elems":
		// the contents of the backing array of a slice whose element type is a single scalar leaf
		v, ok := arg(0).(SliceV)
		if !ok {
			fail("$elems of %s", e.Args[0])
		}
		el := sliceElem(v.Typ)
		p := PtrV{Kind: "elem", Root: typeRepr(el), Base: v.Arr, Idx: tInt(0), Elem: el}
		key, _ := st.leafSortKey(p, leaf{"", el, sortOf(el)})
		if ec.inOld {
			return TV{tSelect(st.oldGet(key), v.Arr), nil}
		}
		return TV{tSelect(st.get(key), v.Arr), nil}
	case "zero":
		t := ec.resolveType(e.Args[0].String())
		return st.zeroVal(t)
	case "min":
		a, b := argT(0), argT(1)
		return TV{tIte(tLe(a, b), a, b), it}
	case "max":
		a, b := argT(0), argT(1)
		return TV{tIte(tGe(a, b), a, b), it}
	case "int", "uint32", "uint64", "uint8":
		return TV{argT(0), it}
	case "toU32":
		vc.modules["base"] = true
		return TV{app("toU32", SInt, argT(0)), it}
	case "unchanged":
		cur := ec.eval(e.Args[0])
		n := ec.child()
		n.inOld = true
		old := n.eval(e.Args[0])
		return TV{ec.valEq(cur, old, e), bt}
	case "$open":
		return TV{ec.chanFieldOf(arg(0), "open"), bt}
	case "$len":
		return TV{ec.chanFieldOf(arg(0), "len"), it}
	case "$cap":
		return TV{ec.chanFieldOf(arg(0), "cap"), it}
	case "$sent":
		return TV{ec.chanFieldOf(arg(0), "sent"), it}
	case "$rcvd":
		return TV{ec.chanFieldOf(arg(0), "rcvd"), it}
	case "$chval":
		// $chval(c, k): the k-th value ever sent on c (channels of scalar element type)
		v := arg(0)
		tv, ok := v.(TV)
		if !ok || tv.Typ == nil {
			fail("$chval needs a typed channel value")
		}
		cht, ok := resolveTP(tv.Typ).Underlying().(*types.Chan)
		if !ok {
			fail("$chval of a non-channel")
		}
		st.curChanElem = cht.Elem()
		k := argT(1)
		var rd func(t types.Type, prefix string) Val
		rd = func(t types.Type, prefix string) Val {
			switch classify(t) {
			case kScalar:
				lf := leaf{prefix, t, sortOf(t)}
				key := st.chanValKey(cht.Elem(), lf)
				var arr Term
				if ec.inOld {
					arr = st.oldGet(key)
				} else {
					arr = st.get(key)
				}
				return TV{tSelect(tSelect(arr, tv.T), k), t}
			case kStruct:
				s := t.Underlying().(*types.Struct)
				out := StructV{Typ: t}
				for i := 0; i < s.NumFields(); i++ {
					out.F = append(out.F, rd(s.Field(i).Type(), joinPath(prefix, s.Field(i).Name())))
				}
				return out
			}
			fail("$chval: unsupported element type %s", t)
			return nil
		}
		return rd(cht.Elem(), "")
	case "$alloc":
		vc.setKeySort(allocKey, arrSort(SInt, SBool))
		if ec.inOld {
			return TV{tSelect(st.oldGet(allocKey), argT(0)), bt}
		}
		return TV{tSelect(st.get(allocKey), argT(0)), bt}
	case "$fresh":
		vc.setKeySort(allocKey, arrSort(SInt, SBool))
		r := argT(0)
		return TV{tAnd(tNot(tEq(r, tInt(0))), tSelect(st.get(allocKey), r), tNot(tSelect(st.oldGet(allocKey), r))), bt}
	case "$isT", "$asT", "$box":
		// $isT(T, x) / $asT(T, x) / $box(T, v)
		t := ec.resolveType(e.Args[0].String())
		s := sortOf(t)
		vc.modules["iface"] = true
		x := argT(1)
		if _, isTP := types.Unalias(t).(*types.TypeParam); isTP {
			vc.strLits["box."+s] = "box"
			switch e.Name {
			case "$isT":
				return TV{app(smtIdent("is."+s), SBool, x), bt}
			case "$asT":
				return TV{app(smtIdent("unbox."+s), s, x), t}
			default:
				return TV{app(smtIdent("box."+s), SInt, x), nil}
			}
		}
		// T instantiated with an interface type: boxing is the identity and every non-nil value of an implementing type passes
		switch e.Name {
		case "$isT":
			return TV{tNot(tEq(x, tInt(0))), bt}
		default:
			return TV{x, t}
		}
	case "$addr":
		// address of a field: $addr(l.root)
		if ap, ok := ec.addrOf(e.Args[0]); ok {
			if ap.Path == "" {
				return TV{st.encodePtr(ap), ap.Typ}
			}
			return ap
		}
		if e.Args[0].Kind == "sel" {
			x := ec.eval(e.Args[0].Args[0])
			if p, ok := ec.ptrOf(x); ok {
				if np, ok := fieldPtr(p, e.Args[0].Name); ok {
					if np.Path == "" {
						return TV{st.encodePtr(np), types.NewPointer(np.Elem)}
					}
					np.Typ = types.NewPointer(np.Elem)
					return np
				}
			}
			fail("$addr: cannot take the address of %s", e.Args[0])
		}
		// address of an address-taken local of the function (e.g. the entry allocated by PriorityQueue.Enqueue)
		if e.Args[0].Kind == "ident" {
			lookup := func(m map[string]Val) (Val, bool) { v, ok := m["&"+e.Args[0].Name]; return v, ok }
			if v, ok := lookup(ec.names); ok {
				return v
			}
			if st.fr != nil {
				for fr := st.fr; fr != nil; fr = fr.parent {
					if v, ok := lookup(fr.names); ok {
						return v
					}
				}
			}
		}
		fail("$addr: %s is not an address-taken local", e.Args[0])
	case "$mk":
		// the interface value made from a pointer value
		v := arg(0)
		tv, ok := v.(TV)
		if !ok || tv.Typ == nil {
			fail("$mk needs a typed pointer value: %s", e.Args[0])
		}
		vc.modules["iface"] = true
		vc.strLits["ptrtid."+tidRepr(tv.Typ)] = "ptrtid"
		return TV{app("mkptr", SInt, vc.typeID(tv.Typ), tv.T), nil}
	case "$as":
		// $as(*T, x): the pointer held by interface value x, typed *T
		t := ec.resolveType(e.Args[0].String())
		vc.modules["iface"] = true
		return TV{app("ptrof", SInt, argT(1)), t}
	case "$parentOf":
		vc.strLits["fun.parentOf"] = "(Int) Int"
		return TV{app("parentOf", SInt, argT(0)), nil}
	case "$typeof":
		vc.modules["iface"] = true
		return TV{app("typeof", SInt, argT(0)), it}
	case "$ptrof":
		vc.modules["iface"] = true
		return TV{app("ptrof", SInt, argT(0)), it}
	case "$tid":
		t := ec.resolveType(e.Args[0].String())
		return TV{vc.typeID(t), it}
	case "$impl":
		vc.modules["iface"] = true
		iname := e.Args[0].String()
		if t := ec.resolveType(iname); t != nil {
			if n, ok := types.Unalias(t).(*types.Named); ok {
				iname = qualifiedName(n)
			}
		}
		vc.strLits["impl."+iname] = "impl"
		return TV{tAnd(tNot(tEq(argT(1), tInt(0))), app(smtIdent("impl."+iname), SBool, app("typeof", SInt, argT(1)))), bt}
	case "$held":
		// B1 only: lock held in write mode
		return TV{tBool(st.held[ec.lockKey(e.Args[0])] == "w"), bt}
	case "$rheld":
		return TV{tBool(st.held[ec.lockKey(e.Args[0])] != ""), bt}
	case "$wg":
		v := arg(0)
		if tv, ok := v.(TV); ok {
			return tv
		}
		fail("$wg of %T", v)
	case "$strcat":
		vc.strLits["fun.str.cat"] = "(Str Str) Str"
		return TV{app("str.cat", SStr, argT(0), argT(1)), types.Typ[types.String]}
	case "$dec":
		// $dec(b, SortType, "Struct.field"): the value of that field decoded from the JSON bytes b (see encoding/json primitives)
		sv, ok := arg(0).(SliceV)
		if !ok {
			fail("$dec needs a byte slice")
		}
		t := ec.resolveType(e.Args[1].String())
		srt := sortOf(t)
		fn := "dec." + e.Args[2].Lit + "<" + srt + ">"
		vc.strLits["fun."+fn] = "(Int) " + srt
		return TV{app(smtIdent(fn), srt, sv.Arr), t}
	case "$jsonrt":
		t := ec.resolveType(e.Args[0].String())
		srt := sortOf(t)
		rt := "jsonrt<" + srt + ">"
		vc.strLits["fun."+rt] = "(" + srt + ") " + srt
		return TV{app(smtIdent(rt), srt, argT(1)), t}
	case "$emptyset":
		return TV{Term{"((as const (Array Int Bool)) false)", arrSort(SInt, SBool)}, nil}
	case "$sel":
		return TV{tSelect(argT(0), argT(1)), nil}
	case "$store":
		a := argT(0)
		return TV{tStore(a, argT(1), argT(2)), nil}
	case "$deref":
		v := arg(0)
		p, ok := ec.ptrOf(v)
		if !ok {
			fail("$deref of non-pointer")
		}
		return st.load(p, ec.inOld)
	}
	if strings.HasPrefix(e.Name, "$") {
		if gd := vc.cs.Ghosts[e.Name[1:]]; gd != nil && strings.HasPrefix(gd.Sort, "fun ") {
			// ghost state function: $f(x) reads the ghost map G:$f<sort of x>
			x := argT(0)
			key, arr := ec.ghostFunArr(e.Name[1:], x.Sort)
			_ = key
			return TV{tSelect(arr, x), nil}
		}
	}
	if cp := vc.cs.Preds[e.Name]; cp != nil {
		if len(cp.Formals) != len(e.Args) {
			fail("pred %s expects %d arguments", e.Name, len(cp.Formals))
		}
		body, err := cp.Body.expr()
		if err != nil {
			fail("%v", err)
		}
		sub := ec.child()
		for i, f := range cp.Formals {
			sub.bound[f.Name] = ec.eval(e.Args[i])
			sub.tparams = tenvFromVal(sub.bound[f.Name], sub.tparams)
		}
		// predicates are closed: only formals and package-level names are visible
		sub.names = map[string]Val{}
		if p := vc.pkgByShort(cp.Pkg); p != nil {
			sub.pkg = p
		}
		return sub.eval(body)
	}
	fail("unknown contract function %s", e.Name)
	return nil
}

func (ec *EvalCtx) lockKey(e *CExpr) string {
	// textual lock identity: evaluated base term + path
	if e.Kind == "sel" {
		x := ec.eval(e.Args[0])
		if p, ok := ec.ptrOf(x); ok {
			return p.Root + "#" + p.Base.S + "#" + joinPath(p.Path, e.Name)
		}
	}
	fail("cannot identify lock %s", e)
	return ""
}

func (ec *EvalCtx) chanFieldOf(v Val, f string) Term {
	tv, ok := v.(TV)
	if !ok || tv.Typ == nil {
		fail("channel ghost function applied to a value of unknown channel type")
	}
	ec.st.setChanElem(tv.Typ)
	return ec.chanField(tv.T, f)
}

func (ec *EvalCtx) chanField(ch Term, f string) Term {
	st := ec.st
	if f == "len" {
		return tSub(ec.chanField(ch, "sent"), ec.chanField(ch, "rcvd"))
	}
	k := st.chanKey(f)
	if ec.inOld {
		return tSelect(st.oldGet(k), ch)
	}
	return tSelect(st.get(k), ch)
}

// resolveType: textual type in a contract -> types.Type (type parameters by name, named types of the package, basic types, pointers).
func (ec *EvalCtx) resolveType(s string) types.Type {
	s = strings.TrimSpace(s)
	if strings.HasPrefix(s, "*") {
		return types.NewPointer(ec.resolveType(s[1:]))
	}
	if t, ok := ec.tparams[s]; ok {
		return t
	}
	switch s {
	case "int":
		return types.Typ[types.Int]
	case "bool":
		return types.Typ[types.Bool]
	case "string":
		return types.Typ[types.String]
	case "uint32":
		return types.Typ[types.Uint32]
	case "uint64":
		return types.Typ[types.Uint64]
	case "ref", "any", "error":
		return types.NewInterfaceType(nil, nil)
	}
	var explicit []types.Type
	if i := strings.Index(s, "["); i > 0 && strings.HasSuffix(s, "]") {
		for _, a := range splitTargets(s[i+1 : len(s)-1]) {
			explicit = append(explicit, ec.resolveType(a))
		}
		s = s[:i]
	}
	pkg := ec.pkg
	name := s
	if i := strings.Index(s, "."); i >= 0 {
		if p := ec.findPkg(s[:i]); p != nil {
			pkg = p
			name = s[i+1:]
		}
	}
	if pkg != nil {
		if obj := pkg.Scope().Lookup(name); obj != nil {
			if tn, ok := obj.(*types.TypeName); ok {
				t := tn.Type()
				if n, ok := t.(*types.Named); ok && n.TypeParams() != nil && n.TypeParams().Len() > 0 {
					// instantiate with same-named type parameters from the environment when available
					var targs []types.Type
					for i := 0; i < n.TypeParams().Len(); i++ {
						tp := n.TypeParams().At(i)
						if i < len(explicit) {
							targs = append(targs, explicit[i])
							continue
						}
						if a, ok := ec.tparams[tp.Obj().Name()]; ok {
							targs = append(targs, a)
						} else {
							targs = append(targs, tp)
						}
					}
					if inst, err := types.Instantiate(nil, n, targs, false); err == nil {
						return inst
					}
				}
				return t
			}
		}
	}
	fail("cannot resolve type %q in contract", s)
	return nil
}

func (ec *EvalCtx) quant(e *CExpr) Val {
	st := ec.st
	n := ec.child()
	var decls []string
	var rangeFacts []Term
	for _, b := range e.Binders {
		var v Val
		name := smtIdent(st.vc.fresh("q." + b.Name))
		switch b.Type {
		case "int":
			v = TV{Term{name, SInt}, types.Typ[types.Int]}
			decls = append(decls, "("+name+" Int)")
		case "bool":
			v = TV{Term{name, SBool}, types.Typ[types.Bool]}
			decls = append(decls, "("+name+" Bool)")
		case "ref":
			v = TV{Term{name, SInt}, nil}
			decls = append(decls, "("+name+" Int)")
		default:
			t := ec.resolveType(b.Type)
			s := sortOf(t)
			v = TV{Term{name, s}, t}
			decls = append(decls, "("+name+" "+s+")")
		}
		n.bound[b.Name] = v
	}
	st.inQuant++
	body := n.evalBool(e.Args[0])
	st.inQuant--
	_ = rangeFacts
	pat := ""
	if len(e.Trig) > 0 {
		var ps []string
		st.inQuant++
		for _, t := range e.Trig {
			ps = append(ps, n.evalTerm(t).S)
		}
		st.inQuant--
		pat = strings.Join(ps, " ")
	} else {
		pat = autoPattern(body.S, n, e.Binders)
	}
	q := "forall"
	if e.Kind == "exists" {
		q = "exists"
	}
	var s string
	if pat != "" && q == "forall" {
		s = fmt.Sprintf("(%s (%s) (! %s :pattern (%s)))", q, strings.Join(decls, " "), body.S, pat)
	} else {
		s = fmt.Sprintf("(%s (%s) %s)", q, strings.Join(decls, " "), body.S)
	}
	return TV{Term{s, SBool}, types.Typ[types.Bool]}
}

// autoPattern: pick (select A v) subterms where v is exactly a bound variable; one multi-pattern covering all binders if possible.
func autoPattern(body string, ec *EvalCtx, bs []Binder) string {
	var pats []string
	for _, b := range bs {
		v := ec.bound[b.Name].(TV).T.S
		p := findSelectWith(body, v)
		if p == "" {
			return ""
		}
		dup := false
		for _, x := range pats {
			if x == p {
				dup = true
			}
		}
		if !dup {
			pats = append(pats, p)
		}
	}
	return strings.Join(pats, " ")
}

// findSelectWith finds the smallest "(select X v)" or "(f ... v ...)" application with v as a direct argument where the head is select or an uninterpreted symbol.
func findSelectWith(body, v string) string {
	best := ""
	// scan for occurrences of " v)" preceded by a balanced "(select ..." prefix
	for i := 0; i+len(v) <= len(body); i++ {
		if body[i:i+len(v)] != v {
			continue
		}
		if i == 0 || body[i-1] != ' ' {
			continue
		}
		end := i + len(v)
		if end >= len(body) || body[end] != ')' {
			continue
		}
		// find matching open paren
		depth := 0
		j := end
		for ; j >= 0; j-- {
			if body[j] == ')' {
				depth++
			} else if body[j] == '(' {
				depth--
				if depth == 0 {
					break
				}
			}
		}
		if j < 0 {
			continue
		}
		cand := body[j : end+1]
		if strings.HasPrefix(cand, "(select ") && !strings.Contains(cand, "(+ ") && !strings.Contains(cand, "(- ") {
			if best == "" || len(cand) < len(best) {
				best = cand
			}
		}
	}
	return best
}

// ---------- modifies targets ----------

// staticTargetKeys: keys named by a modifies target, resolved with static types (for loop modification sets).
func (vc *VC) staticTargetKeys(tgt string, origin *ssa.Function, c *ssa.CallCommon) ([]string, bool) {
	tgt = strings.TrimSpace(tgt)
	if tgt == "" || tgt == "nothing" {
		return nil, true
	}
	if tgt == "$alloc" {
		return []string{allocKey}, true
	}
	if strings.HasPrefix(tgt, "key ") {
		return []string{strings.TrimSpace(tgt[4:])}, true
	}
	elems := false
	if strings.HasSuffix(tgt, "[*]") {
		elems = true
		tgt = strings.TrimSuffix(tgt, "[*]")
	}
	e, err := parseCExpr(tgt)
	if err != nil {
		return nil, false
	}
	typeOfName := func(n string) types.Type {
		if origin == nil || c == nil {
			if n == "self" && c != nil {
				return c.Value.Type()
			}
			return nil
		}
		for i, p := range origin.Params {
			if p.Name() == n && i < len(c.Args) {
				return c.Args[i].Type()
			}
		}
		return nil
	}
	if origin != nil && c == nil {
		// the function's own modifies clause: names are its parameters / captured variables
		typeOfName = func(n string) types.Type {
			for _, p := range origin.Params {
				if p.Name() == n {
					return p.Type()
				}
			}
			return nil
		}
	}
	switch e.Kind {
	case "ghost":
		if gd := vc.cs.Ghosts[e.Name]; gd != nil && strings.HasPrefix(gd.Sort, "fun ") {
			return []string{"G:$" + e.Name + "<"}, true
		}
		return []string{"G:$" + e.Name}, true
	case "index":
		if e.Args[0].Kind == "ghost" {
			return []string{"G:$" + e.Args[0].Name}, true
		}
	case "call":
		if gd := vc.cs.Ghosts[strings.TrimPrefix(e.Name, "$")]; gd != nil && strings.HasPrefix(gd.Sort, "fun ") && strings.HasPrefix(e.Name, "$") {
			return []string{"G:" + e.Name + "<"}, true
		}
		if e.Name == "$chan" {
			return []string{"CH:sent<", "CH:rcvd<", "CHV:<"}, true
		}
		if e.Name == "$open" {
			return []string{"CH:open<"}, true
		}
		if e.Name == "$cap" {
			return []string{"CH:cap<"}, true
		}
		if e.Name == "$deref" && e.Args[0].Kind == "ident" {
			if t := typeOfName(e.Args[0].Name); t != nil {
				el := derefType(t)
				var keys []string
				p := PtrV{Kind: "cell", Root: typeRepr(el)}
				if classify(el) == kStruct {
					p = PtrV{Kind: "obj", Root: rootName(el)}
				}
				for _, lf := range leavesOf(el, "") {
					keys = append(keys, vc.leafKey(p, lf.path))
				}
				return keys, true
			}
		}
	case "sel":
		// walk selector chain down to a root identifier
		var chain []string
		cur := e
		for cur.Kind == "sel" {
			chain = append([]string{cur.Name}, chain...)
			cur = cur.Args[0]
		}
		if cur.Kind != "ident" {
			return nil, false
		}
		var t types.Type
		if pt := typeOfName(cur.Name); pt != nil {
			t = pt
		} else {
			// type-wide target: resolve in the callee's package
			var pkg *types.Package
			if origin != nil && origin.Pkg != nil {
				pkg = origin.Pkg.Pkg
			} else {
				pkg = vc.fn.Pkg.Pkg
			}
			ec := &EvalCtx{st: nil, pkg: pkg, tparams: map[string]types.Type{}}
			func() {
				defer func() { recover() }()
				name := cur.Name
				if len(chain) > 1 && ec.findPkg(cur.Name) != nil {
					name = cur.Name + "." + chain[0]
					chain = chain[1:]
				}
				t = types.NewPointer(ec.resolveType(name))
			}()
			if t == nil {
				return nil, false
			}
		}
		el := derefType(t)
		if el == nil {
			return nil, false
		}
		p := PtrV{Kind: "obj", Root: rootName(el), Elem: el}
		for i, f := range chain {
			if strings.HasPrefix(f, "$") {
				return []string{objKey(p.Root, joinPath(p.Path, f))}, true
			}
			np, ok := fieldPtr(p, f)
			if !ok {
				return nil, false
			}
			p = np
			if i < len(chain)-1 {
				// pointer field followed by another selector: deref
				if d := derefType(p.Elem); d != nil {
					p = PtrV{Kind: "obj", Root: rootName(d), Elem: d}
				}
			}
		}
		var keys []string
		if elems {
			sl, ok := p.Elem.Underlying().(*types.Slice)
			if !ok {
				return nil, false
			}
			ep := PtrV{Kind: "elem", Root: typeRepr(sl.Elem())}
			for _, lf := range leavesOf(sl.Elem(), "") {
				keys = append(keys, vc.leafKey(ep, lf.path))
			}
			return keys, true
		}
		for _, lf := range leavesOf(p.Elem, "") {
			keys = append(keys, vc.leafKey(p, lf.path))
		}
		return keys, true
	}
	return nil, false
}

// tenvFromVal: the type arguments of a generic named type behind a value, by type-parameter name (so that a predicate written for
// worker[T, JobType] can be applied where JobType is instantiated, e.g. in newWorker[T] whose worker is worker[T, iJob[T]]).
func tenvFromVal(v Val, env map[string]types.Type) map[string]types.Type {
	var t types.Type
	switch x := v.(type) {
	case TV:
		t = x.Typ
	case PtrV:
		t = x.Typ
	}
	if t == nil {
		return env
	}
	if d := derefType(t); d != nil {
		t = d
	}
	n, ok := types.Unalias(t).(*types.Named)
	if !ok || n.TypeArgs() == nil || n.TypeArgs().Len() == 0 {
		return env
	}
	out := map[string]types.Type{}
	for k, v := range env {
		out[k] = v
	}
	tps := n.Origin().TypeParams()
	for i := 0; i < tps.Len() && i < n.TypeArgs().Len(); i++ {
		out[tps.At(i).Obj().Name()] = n.TypeArgs().At(i)
	}
	return out
}

type conjunct struct {
	t    Term
	text string
}

// evalConjuncts: the conjuncts of a boolean contract expression, with contract-level predicates unfolded (one obligation per conjunct).
func (ec *EvalCtx) evalConjuncts(e *CExpr) []conjunct {
	if e.Kind == "bin" && e.Op == "&&" {
		return append(ec.evalConjuncts(e.Args[0]), ec.evalConjuncts(e.Args[1])...)
	}
	if e.Kind == "call" {
		if cp := ec.st.vc.cs.Preds[e.Name]; cp != nil && len(cp.Formals) == len(e.Args) {
			body, err := cp.Body.expr()
			if err != nil {
				fail("%v", err)
			}
			sub := ec.child()
			for i, f := range cp.Formals {
				sub.bound[f.Name] = ec.eval(e.Args[i])
				sub.tparams = tenvFromVal(sub.bound[f.Name], sub.tparams)
			}
			sub.names = map[string]Val{}
			if p := ec.st.vc.pkgByShort(cp.Pkg); p != nil {
				sub.pkg = p
			}
			var out []conjunct
			for _, c := range sub.evalConjuncts(body) {
				out = append(out, conjunct{c.t, e.Name + ": " + c.text})
			}
			return out
		}
	}
	return []conjunct{{ec.evalBool(e), e.String()}}
}
