package main

import (
	"fmt"
	"go/types"

	"golang.org/x/tools/go/ssa"
)

// Channel model (ghost state per channel ref):
//   CH:open, CH:cap, CH:sent (values sent so far), CH:rcvd (values received so far); len = sent - rcvd;
//   CHV:<elem leaf>[ch][k] = the k-th value ever sent (FIFO: the k-th receive yields it).
// Blocking is not modelled: a receive on an empty open channel, or a send on a full one, stands for "another goroutine acts first".

// setChanElem: the channel operations below address the ghost state of channels of this element type (channels of different element
// types are different objects, so their ghost state lives under different keys).
func (st *State) setChanElem(chanType types.Type) {
	if chanType == nil {
		fail("channel operation on a value of unknown channel type")
	}
	ct, ok := resolveTP(chanType).Underlying().(*types.Chan)
	if !ok {
		fail("channel operation on non-channel type %s", chanType)
	}
	st.curChanElem = ct.Elem()
}

func (st *State) chanKey(f string) string {
	if st.curChanElem == nil {
		fail("channel operation without element type")
	}
	k := "CH:" + f + "<" + typeRepr(st.curChanElem) + ">"
	if f == "open" {
		st.vc.setKeySort(k, arrSort(SInt, SBool))
	} else {
		st.vc.setKeySort(k, arrSort(SInt, SInt))
	}
	return k
}

func (st *State) chanValKey(el types.Type, lf leaf) string {
	k := "CHV:<" + typeRepr(el) + ">" + dotIf(lf.path)
	st.vc.setKeySort(k, arrSort(SInt, arrSort(SInt, lf.sort)))
	return k
}

func (st *State) chanGet(ch Term, f string) Term {
	if f == "len" {
		return tSub(st.chanGet(ch, "sent"), st.chanGet(ch, "rcvd"))
	}
	return tSelect(st.get(st.chanKey(f)), ch)
}

func (st *State) chanSet(ch Term, f string, v Term) {
	k := st.chanKey(f)
	st.set(k, tStore(st.get(k), ch, v))
}

func (st *State) chanInit(ch, capT Term) {
	st.chanSet(ch, "open", tTrue)
	st.chanSet(ch, "cap", capT)
	st.chanSet(ch, "sent", tInt(0))
	st.chanSet(ch, "rcvd", tInt(0))
}

// chanWF: 0 <= rcvd <= sent, len <= cap (assumed of every channel state).
func (st *State) chanWF(ch Term) {
	if st.inQuant > 0 {
		return
	}
	s, r, c := st.chanGet(ch, "sent"), st.chanGet(ch, "rcvd"), st.chanGet(ch, "cap")
	st.assume(tAnd(tLe(tInt(0), r), tLe(r, s), tLe(tSub(s, r), tIte(tGe(c, tInt(1)), c, tInt(1))), tLe(tInt(0), c)))
}

// recordSent: hist[ch][sent] := v; sent++
func (st *State) recordSent(ch Term, v Val, el types.Type) {
	sent := st.chanGet(ch, "sent")
	switch classify(el) {
	case kScalar:
		lf := leaf{"", el, sortOf(el)}
		k := st.chanValKey(el, lf)
		a := st.get(k)
		st.set(k, tStore(a, ch, tStore(tSelect(a, ch), sent, st.termOf(v))))
	case kStruct:
		sv, ok := v.(StructV)
		if ok {
			st.recordStructSent(ch, sent, sv, el, "")
		}
	}
	st.chanSet(ch, "sent", st.define("sent", tAdd(sent, tInt(1))))
}

func (st *State) recordStructSent(ch, sent Term, sv StructV, t types.Type, prefix string) {
	s, ok := t.Underlying().(*types.Struct)
	if !ok {
		return
	}
	for i := 0; i < s.NumFields() && i < len(sv.F); i++ {
		f := s.Field(i)
		path := joinPath(prefix, f.Name())
		switch classify(f.Type()) {
		case kScalar:
			lf := leaf{path, f.Type(), sortOf(f.Type())}
			k := st.chanValKey(t0(st, t, prefix), lf)
			a := st.get(k)
			st.set(k, tStore(a, ch, tStore(tSelect(a, ch), sent, st.termOf(sv.F[i]))))
		case kStruct:
			if inner, ok := sv.F[i].(StructV); ok {
				st.recordStructSent(ch, sent, inner, f.Type(), path)
			}
		}
	}
}

// t0: the channel element type a (possibly nested) struct leaf belongs to; kept simple: keys are per top-level element type.
func t0(st *State, t types.Type, prefix string) types.Type { return st.curChanElem }

func (st *State) chanSend(ch Term, v Val, el types.Type, label string, blocking bool) {
	st.curChanElem = el
	st.oblige("chan", label+":not-closed", tOr(tEq(ch, tInt(0)), st.chanGet(ch, "open")), "send on a channel that is not closed")
	if blocking {
		st.oblige("chan", label+":not-nil", tNot(tEq(ch, tInt(0))), "blocking send on a non-nil channel")
		st.chanWF(ch)
		// if the buffer is full the send completes only after a receiver has taken a value: rcvd may have advanced
		full := tGe(st.chanGet(ch, "len"), st.chanGet(ch, "cap"))
		nr := st.declare("rcvd", SInt)
		oldr := st.chanGet(ch, "rcvd")
		st.assume(tAnd(tGe(nr, oldr), tImp(tNot(full), tEq(nr, oldr)), tLe(nr, st.chanGet(ch, "sent"))))
		st.curChanElem = el
		st.recordSent(ch, v, el)
		st.chanSet(ch, "rcvd", nr)
		st.chanWF(ch)
	}
}

func (st *State) chanRecv(x *ssa.UnOp) {
	ch := st.value(x.X).(TV).T
	el := x.X.Type().Underlying().(*types.Chan).Elem()
	st.curChanElem = el
	st.assume(tNot(tEq(ch, tInt(0)))) // receive from a nil channel blocks forever: the path ends
	st.chanWF(ch)
	sent, rcvd := st.chanGet(ch, "sent"), st.chanGet(ch, "rcvd")
	has := tLt(rcvd, sent)
	open := st.chanGet(ch, "open")
	// empty and open: another goroutine sends a value or closes the channel first
	envSend := st.declare("envsend", SBool)
	st.assume(tImp(envSend, tAnd(tNot(has), open)))
	st.assume(tImp(tAnd(tNot(has), open), tOr(envSend, tTrue)))
	envClose := st.declare("envclose", SBool)
	st.assume(tImp(envClose, tAnd(tNot(has), open, tNot(envSend))))
	st.assume(tImp(tAnd(tNot(has), open), tOr(envSend, envClose)))
	okv := st.define("recvok", tOr(has, envSend))
	st.curChanElem = el
	// value: hist[ch][rcvd] when buffered; unconstrained when supplied by the environment; zero when closed
	val := st.chanValueAt(ch, rcvd, el, tOr(has, envSend), envSend)
	nsent := st.define("sent", tIte(envSend, tAdd(sent, tInt(1)), sent))
	nrcvd := st.define("rcvd", tIte(okv, tAdd(rcvd, tInt(1)), rcvd))
	st.chanSet(ch, "sent", nsent)
	st.chanSet(ch, "rcvd", nrcvd)
	st.chanSet(ch, "open", tAnd(open, tNot(envClose)))
	if envSend.S != "false" {
		st.vc.assumptionsUsed["a receive on an empty open channel is completed by another goroutine's send (unconstrained value) or close"] = true
	}
	if x.CommaOk {
		st.bind(x, TupleV{[]Val{val, TV{okv, types.Typ[types.Bool]}}})
	} else {
		st.bind(x, val)
	}
	st.fr.names["$recvok"] = TV{okv, types.Typ[types.Bool]}
	st.fr.names["$envsend"] = TV{envSend, types.Typ[types.Bool]}
	st.vc.runGhostRecv(st)
}

// chanValueAt: the value delivered by a receive.
func (st *State) chanValueAt(ch, k Term, el types.Type, ok, env Term) Val {
	switch classify(el) {
	case kScalar:
		lf := leaf{"", el, sortOf(el)}
		key := st.chanValKey(el, lf)
		hist := tSelect(tSelect(st.get(key), ch), k)
		envv := st.declare("envval", lf.sort)
		v := st.define("recv", tIte(ok, tIte(env, envv, hist), st.zeroTerm(el)))
		st.assumeRange(v, el)
		return TV{v, el}
	case kStruct:
		return st.chanStructAt(ch, k, el, "", ok, env)
	}
	return st.freshVal("recv", el)
}

func (st *State) chanStructAt(ch, k Term, t types.Type, prefix string, ok, env Term) Val {
	s := t.Underlying().(*types.Struct)
	out := StructV{Typ: t}
	for i := 0; i < s.NumFields(); i++ {
		f := s.Field(i)
		path := joinPath(prefix, f.Name())
		switch classify(f.Type()) {
		case kScalar:
			lf := leaf{path, f.Type(), sortOf(f.Type())}
			key := st.chanValKey(st.curChanElem, lf)
			hist := tSelect(tSelect(st.get(key), ch), k)
			envv := st.declare("envval", lf.sort)
			v := st.define("recv", tIte(ok, tIte(env, envv, hist), st.zeroTerm(f.Type())))
			out.F = append(out.F, TV{v, f.Type()})
		case kStruct:
			out.F = append(out.F, st.chanStructAt(ch, k, f.Type(), path, ok, env))
		default:
			out.F = append(out.F, st.freshVal("recvf", f.Type()))
		}
	}
	return out
}

func (st *State) selectOp(x *ssa.Select) {
	vc := st.vc
	if !x.Blocking && len(x.States) == 1 && x.States[0].Dir == types.RecvOnly {
		st.selectRecvNonBlocking(x)
		return
	}
	if x.Blocking || len(x.States) != 1 || x.States[0].Dir != types.SendOnly {
		fail("unsupported select form")
	}
	ch := st.value(x.States[0].Chan).(TV).T
	el := x.States[0].Chan.Type().Underlying().(*types.Chan).Elem()
	st.curChanElem = el
	lbl := fmt.Sprintf("select#%d", vc.ordinals[x])
	st.chanWF(ch)
	st.chanSend(ch, nil, el, lbl, false)
	// non-blocking send: taken iff the channel is non-nil and has room; on an unbuffered channel it may also be taken by a waiting receiver
	room := tLt(st.chanGet(ch, "len"), st.chanGet(ch, "cap"))
	sentB := st.declare("selsent", SBool)
	nonnil := tNot(tEq(ch, tInt(0)))
	st.assume(tImp(sentB, nonnil))
	st.assume(tImp(tAnd(nonnil, room), sentB))
	st.assume(tImp(tAnd(sentB, tNot(room)), tEq(st.chanGet(ch, "cap"), tInt(0))))
	// effect when taken
	sent := st.chanGet(ch, "sent")
	rcvd := st.chanGet(ch, "rcvd")
	st.curChanElem = el
	v := st.value(x.States[0].Send)
	switch classify(el) {
	case kScalar:
		lf := leaf{"", el, sortOf(el)}
		k := st.chanValKey(el, lf)
		a := st.get(k)
		st.set(k, tIte(sentB, tStore(a, ch, tStore(tSelect(a, ch), sent, st.termOf(v))), a))
	}
	st.chanSet(ch, "sent", st.define("sent", tIte(sentB, tAdd(sent, tInt(1)), sent)))
	// handed straight to a waiting receiver on an unbuffered channel
	st.chanSet(ch, "rcvd", st.define("rcvd", tIte(tAnd(sentB, tNot(room)), tAdd(rcvd, tInt(1)), rcvd)))
	idx := st.define("selidx", tIte(sentB, tInt(0), tInt(-1)))
	st.bind(x, TupleV{[]Val{TV{idx, types.Typ[types.Int]}, TV{tFalse, types.Typ[types.Bool]}}})
}

// selectRecvNonBlocking: `select { case v, ok := <-ch: ... default: }`. The case is taken iff the channel is non-nil and either holds a
// buffered value or is closed (a sender parked on an unbuffered channel may also be taken: left open); nothing blocks.
func (st *State) selectRecvNonBlocking(x *ssa.Select) {
	ch := st.value(x.States[0].Chan).(TV).T
	el := x.States[0].Chan.Type().Underlying().(*types.Chan).Elem()
	st.curChanElem = el
	st.chanWF(ch)
	nonnil := tNot(tEq(ch, tInt(0)))
	sent, rcvd := st.chanGet(ch, "sent"), st.chanGet(ch, "rcvd")
	has := tLt(rcvd, sent)
	open := st.chanGet(ch, "open")
	taken := st.declare("seltaken", SBool)
	st.assume(tImp(taken, nonnil))
	st.assume(tImp(tAnd(nonnil, tOr(has, tNot(open))), taken))
	// taken on an empty open channel: only by rendez-vous with a parked sender of an unbuffered channel
	envSend := st.define("selenv", tAnd(taken, tNot(has), open))
	st.assume(tImp(envSend, tEq(st.chanGet(ch, "cap"), tInt(0))))
	okv := st.define("selrecvok", tAnd(taken, tOr(has, envSend)))
	st.curChanElem = el
	val := st.chanValueAt(ch, rcvd, el, okv, envSend)
	st.chanSet(ch, "sent", st.define("sent", tIte(envSend, tAdd(sent, tInt(1)), sent)))
	st.chanSet(ch, "rcvd", st.define("rcvd", tIte(okv, tAdd(rcvd, tInt(1)), rcvd)))
	idx := st.define("selidx", tIte(taken, tInt(0), tInt(-1)))
	// Select yields (index, recvOk, received values...)
	st.bind(x, TupleV{[]Val{TV{idx, types.Typ[types.Int]}, TV{okv, types.Typ[types.Bool]}, val}})
	st.vc.runGhostRecv(st)
}

// ghostCount: G:$<name>[idx]++ (event counters exposed to contracts: $broadcasts, $wgdone, $tickerStopped).
func (st *State) ghostCount(name string, idx Term) {
	k := "G:$" + name
	st.vc.setKeySort(k, arrSort(SInt, SInt))
	a := st.get(k)
	st.set(k, tStore(a, idx, tAdd(tSelect(a, idx), tInt(1))))
}
