package main

import (
	"fmt"
	"go/types"
	"sort"
	"strings"

	"golang.org/x/tools/go/ssa"
)

// Line: persistent list of SMT lines (declarations and assertions) along a path.
type Line struct {
	prev *Line
	text string
	n    int
}

type Obligation struct {
	Name    string // stable name without path suffix
	Kind    string
	Fn      string
	Props   []string
	Mode    string
	lines   *Line
	Goal    Term
	Modules map[string]bool
	Info    string // human-readable description (source expr)
	Excuse  Term   // optional: known-finding excuse (set by matcher)
	vc        *VC  // the verification context that generated it (replay)
	CrossCheck []string // thorough tier: answers of the other solvers on this obligation
	OnlyProps bool // Props come from the clause label: the obligation belongs to exactly these properties
	// results
	Status  string // proved, failed, unknown, error
	Backend string
	Ms      int64
	Bytes   int
	Model   string
	SolverOut string
	Unstable bool
}

type unsupported struct{ msg string }

func fail(format string, a ...interface{}) { panic(unsupported{fmt.Sprintf(format, a...)}) }

// VC: verification of one function under contract.
type VC struct {
	guardHits  map[string]bool // B1: guard rules (root.field) exercised by this function
	rootParams []Val // values of the function's parameters at entry (replay)
	fvCells map[string]string // B1: term of a captured-variable cell -> variable name
	w        *World
	cs       *Contracts
	spec     *SpecLib
	fn       *ssa.Function
	key      string
	fc       *FuncContract
	obls     []*Obligation
	nfresh   int
	keySort  map[string]string
	paths    int
	retPaths int
	unbound  []string
	prims    map[string]bool
	modules  map[string]bool
	loops    map[*ssa.BasicBlock]*loopInfo
	ordinals map[ssa.Instruction]int
	mode     string // SEQ, B1, B2
	strLits  map[string]string
	inlined  map[string]bool
	usedContracts map[string]bool
	feasLines []*Line // lines at each return (for vacuity check)
	ghostAnchors []*ghostStmt
	callCount map[string]int // static call ordinals per callee key, computed up-front
	callOrd   map[ssa.Instruction]int
	assumptionsUsed map[string]bool
	heap0shared map[string]Term
	globalsUsed map[string]bool
	canaries []*Obligation
	loopCanaries []*Obligation
	loopFeas map[string][]*Line
	inLoopDepth int
	panicEscapes int
	explicitTargs []types.Type
	lemmaPkg string
	immutable map[string]bool
	knownExcuses []*KnownFinding
	excused map[string]*excuseInfo
	loopsDone map[*ssa.Function]bool
	ordDone map[*ssa.Function]bool
}

type loopInfo struct {
	header *ssa.BasicBlock
	body   map[*ssa.BasicBlock]bool
	ord    int
	modAll bool
	mod    map[string]bool
}

type deferred struct {
	call *ssa.CallCommon
	args []Val
	fnv  Val
	instr *ssa.Defer
}

type Frame struct {
	fn      *ssa.Function
	vals    map[ssa.Value]Val
	locals  map[*localCell]Val
	defers  []deferred
	parent  *Frame
	retBlk  *ssa.BasicBlock
	retIdx  int
	retInst *ssa.Call
	retKind string
	names   map[string]Val
	depth   int
	curLoopDec map[int]Term // loop ordinal -> variant value at loop head
}

type State struct {
	vc     *VC
	lines  *Line
	heap   map[string]Term
	heap0  map[string]Term // entry heap (shared, lazily extended)
	old    map[string]Term // snapshot used for old() inside callee-contract application (nil = heap0)
	fr     *Frame
	ghostFrame *Frame // when set: contract expressions of ghost/assert statements are evaluated over this (root) frame's names
	held   map[string]string // lock key -> "w" / "r"
	nonnil map[string]bool
	callArgs []Val // actual arguments of the call a "before call" anchor is being evaluated for
	panicking bool
	ghostLocals map[string]Val
	inQuant int
	noAllocAssume bool
	inFrameAssume bool
	unwinding bool
	curChanElem types.Type
	dyn    map[string]dynInfo // interface value term -> concrete value it was made from (for devirtualisation)
}

type dynInfo struct {
	typ types.Type
	val Val
}

func (vc *VC) fresh(prefix string) string {
	vc.nfresh++
	return fmt.Sprintf("%s!%d", prefix, vc.nfresh)
}

func (st *State) addLine(s string) {
	n := 0
	if st.lines != nil {
		n = st.lines.n
	}
	st.lines = &Line{prev: st.lines, text: s, n: n + 1}
}

func (st *State) declare(prefix, sort string) Term {
	name := smtIdent(st.vc.fresh(prefix))
	st.addLine("(declare-const " + name + " " + sort + ")")
	return Term{name, sort}
}

func (st *State) assume(t Term) {
	if t.S == "true" {
		return
	}
	st.addLine("(assert " + t.S + ")")
}

// define introduces a named constant equal to t (keeps terms small).
func (st *State) define(prefix string, t Term) Term {
	if len(t.S) < 40 {
		return t
	}
	c := st.declare(prefix, t.Sort)
	st.addLine("(assert (= " + c.S + " " + t.S + "))")
	return c
}

func (st *State) fork() *State {
	n := &State{vc: st.vc, lines: st.lines, heap0: st.heap0, old: st.old, panicking: st.panicking, unwinding: st.unwinding, curChanElem: st.curChanElem}
	n.heap = make(map[string]Term, len(st.heap))
	for k, v := range st.heap {
		n.heap[k] = v
	}
	n.held = make(map[string]string, len(st.held))
	for k, v := range st.held {
		n.held[k] = v
	}
	n.nonnil = make(map[string]bool, len(st.nonnil))
	for k, v := range st.nonnil {
		n.nonnil[k] = v
	}
	n.ghostLocals = make(map[string]Val, len(st.ghostLocals))
	for k, v := range st.ghostLocals {
		n.ghostLocals[k] = v
	}
	n.dyn = make(map[string]dynInfo, len(st.dyn))
	for k, v := range st.dyn {
		n.dyn[k] = v
	}
	n.fr = st.fr.copyChain()
	st.vc.paths++
	if st.vc.paths > 4000 {
		fail("path limit exceeded")
	}
	return n
}

func (f *Frame) copyChain() *Frame {
	if f == nil {
		return nil
	}
	n := *f
	n.vals = make(map[ssa.Value]Val, len(f.vals))
	for k, v := range f.vals {
		n.vals[k] = v
	}
	n.locals = make(map[*localCell]Val, len(f.locals))
	for k, v := range f.locals {
		n.locals[k] = v
	}
	n.names = make(map[string]Val, len(f.names))
	for k, v := range f.names {
		n.names[k] = v
	}
	n.defers = append([]deferred(nil), f.defers...)
	n.curLoopDec = make(map[int]Term, len(f.curLoopDec))
	for k, v := range f.curLoopDec {
		n.curLoopDec[k] = v
	}
	n.parent = f.parent.copyChain()
	return &n
}

// ---------- heap ----------

func (vc *VC) sortOfKey(key string) string {
	s, ok := vc.keySort[key]
	if !ok {
		fail("heap key %s has no sort", key)
	}
	return s
}

func (vc *VC) setKeySort(key, sort string) {
	if old, ok := vc.keySort[key]; ok && old != sort {
		fail("heap key %s used at two sorts: %s and %s", key, old, sort)
	}
	vc.keySort[key] = sort
}

func keyConstName(key string, n int) string {
	return smtIdent(fmt.Sprintf("H.%s.%d", strings.NewReplacer(" ", "", "(", "<", ")", ">", "*", "^", "[", "<", "]", ">", ",", "_", "/", "_", "#", "_").Replace(key), n))
}

// get returns the current array term of a heap key, creating the entry-state constant on demand.
func (st *State) get(key string) Term {
	if t, ok := st.heap[key]; ok {
		return t
	}
	if i := strings.Index(key, "<"); i > 0 && st.nonnil["pendinghavocprefix:"+key[:i+1]] && !st.nonnil["seen:"+key] {
		st.nonnil["seen:"+key] = true
		t := st.havocKey(key)
		if st.nonnil["pendingloopprefix:"+key[:i+1]] {
			st.assumeFrameFor(key)
		}
		return t
	}
	if st.nonnil["pendingloophavoc:"+key] {
		delete(st.nonnil, "pendingloophavoc:"+key)
		delete(st.nonnil, "pendinghavoc:"+key)
		t := st.havocKey(key)
		st.assumeFrameFor(key)
		return t
	}
	if st.nonnil["pendinghavoc:"+key] {
		delete(st.nonnil, "pendinghavoc:"+key)
		return st.havocKey(key)
	}
	t := st.get0(key)
	st.heap[key] = t
	return t
}

func (st *State) get0(key string) Term {
	if t, ok := st.heap0[key]; ok {
		return t
	}
	t := Term{keyConstName(key, 0), st.vc.sortOfKey(key)}
	st.heap0[key] = t
	return t
}

// oldGet: value of a key in the "old" state relevant for the current evaluation.
func (st *State) oldGet(key string) Term {
	if st.old != nil {
		if t, ok := st.old[key]; ok {
			return t
		}
	}
	return st.get0(key)
}

func (st *State) set(key string, t Term) {
	c := st.declare("h", t.Sort)
	st.addLine("(assert (= " + c.S + " " + t.S + "))")
	st.heap[key] = c
}

func (st *State) havocKey(key string) Term {
	c := st.declare("hv", st.vc.sortOfKey(key))
	st.heap[key] = c
	return c
}

// objKey: heap key of a struct-object leaf.
func objKey(root, path string) string { return "F:" + root + "." + path }

func (vc *VC) leafKey(p PtrV, sub string) string {
	path := joinPath(p.Path, sub)
	switch p.Kind {
	case "obj":
		return objKey(p.Root, path)
	case "elem":
		return "E:" + p.Root + dotIf(path)
	case "cell":
		return "C:" + p.Root + dotIf(path)
	}
	fail("leafKey on %s pointer", p.Kind)
	return ""
}

func dotIf(p string) string {
	if p == "" {
		return ""
	}
	return "." + p
}

func (st *State) leafSortKey(p PtrV, lf leaf) (string, string) {
	key := st.vc.leafKey(p, lf.path)
	var srt string
	if p.Kind == "elem" {
		srt = arrSort(SInt, arrSort(SInt, lf.sort))
	} else {
		srt = arrSort(SInt, lf.sort)
	}
	st.vc.setKeySort(key, srt)
	return key, srt
}

// immutableFun: write-once fields (declared "type T: immutable f, g") are modelled as functions of the object reference.
func (vc *VC) immutableFun(key string, srt string) (string, bool) {
	if vc.immutable == nil {
		vc.immutable = map[string]bool{}
		for _, td := range vc.cs.Types {
			for _, c := range td.Clauses {
				if c.Kw == "immutable" {
					for _, f := range strings.Split(c.Text, ",") {
						if f = strings.TrimSpace(f); f != "" {
							vc.immutable[objKey(td.Pkg+"."+td.Name, f)] = true
						}
					}
				}
			}
		}
	}
	if !vc.immutable[key] {
		return "", false
	}
	name := "imm." + strings.TrimPrefix(key, "F:")
	vc.strLits["fun."+name] = "(Int) " + srt
	return smtIdent(name), true
}

func (st *State) readLeaf(p PtrV, lf leaf, old bool) Term {
	if p.Kind == "obj" {
		if fn, ok := st.vc.immutableFun(st.vc.leafKey(p, lf.path), lf.sort); ok {
			return app(fn, lf.sort, p.Base)
		}
	}
	key, _ := st.leafSortKey(p, lf)
	var arr Term
	if old {
		arr = st.oldGet(key)
	} else {
		arr = st.get(key)
	}
	if p.Kind == "elem" {
		return tSelect(tSelect(arr, p.Base), p.Idx)
	}
	return tSelect(arr, p.Base)
}

func (st *State) writeLeaf(p PtrV, lf leaf, v Term) {
	if p.Kind == "obj" {
		if fn, ok := st.vc.immutableFun(st.vc.leafKey(p, lf.path), lf.sort); ok {
			// write-once: only on an object allocated by this function, and only once on this path
			k := "immw:" + st.vc.leafKey(p, lf.path) + "@" + p.Base.S
			if !st.nonnil["fresh:"+p.Base.S] {
				fail("store to immutable field %s of an object not allocated in this function", st.vc.leafKey(p, lf.path))
			}
			if st.nonnil[k] {
				fail("second store to immutable field %s", st.vc.leafKey(p, lf.path))
			}
			st.nonnil[k] = true
			st.assume(tEq(app(fn, lf.sort, p.Base), v))
			return
		}
	}
	key, _ := st.leafSortKey(p, lf)
	arr := st.get(key)
	if v.Sort != lf.sort {
		fail("store sort mismatch at %s: leaf %s value %s (%s)", key, lf.sort, v.Sort, v.S)
	}
	if p.Kind == "elem" {
		inner := tSelect(arr, p.Base)
		st.set(key, tStore(arr, p.Base, tStore(inner, p.Idx, v)))
	} else {
		st.set(key, tStore(arr, p.Base, v))
	}
}

// load reads a value of the pointee type through p.
func (st *State) load(p PtrV, old bool) Val {
	if p.Kind == "cell" && strings.HasPrefix(p.Root, "global.") && p.Path == "" {
		if gi, ok := st.vc.w.GlobalInit[strings.TrimPrefix(p.Root, "global.")]; ok {
			st.vc.globalsUsed[strings.TrimPrefix(p.Root, "global.")] = true
			switch gi.Kind {
			case "const":
				return TV{gi.Term, p.Elem}
			case "newerr":
				name := "glob." + strings.TrimPrefix(p.Root, "global.")
				st.vc.strLits[name] = "tid"
				return TV{Term{smtIdent(name), SInt}, p.Elem}
			}
		}
	}
	if p.Kind == "local" {
		v, ok := st.fr.lookupLocal(p.Local)
		if !ok {
			fail("read of uninitialised local cell")
		}
		if p.Path != "" {
			return projectPath(v, p.Local.typ, p.Path)
		}
		return v
	}
	return st.loadAt(p, p.Elem, "", old)
}

func (f *Frame) lookupLocal(c *localCell) (Val, bool) {
	for fr := f; fr != nil; fr = fr.parent {
		if v, ok := fr.locals[c]; ok {
			return v, true
		}
	}
	return nil, false
}

func (f *Frame) setLocal(c *localCell, v Val) {
	for fr := f; fr != nil; fr = fr.parent {
		if _, ok := fr.locals[c]; ok {
			fr.locals[c] = v
			return
		}
	}
	f.locals[c] = v
}

func projectPath(v Val, t types.Type, path string) Val {
	if path == "" {
		return v
	}
	sv, ok := v.(StructV)
	if !ok {
		fail("projectPath on non-struct")
	}
	st := t.Underlying().(*types.Struct)
	head, rest, _ := strings.Cut(path, ".")
	for i := 0; i < st.NumFields(); i++ {
		if st.Field(i).Name() == head {
			return projectPath(sv.F[i], st.Field(i).Type(), rest)
		}
	}
	fail("no field %s", head)
	return nil
}

func updatePath(v Val, t types.Type, path string, nv Val) Val {
	if path == "" {
		return nv
	}
	sv := v.(StructV)
	st := t.Underlying().(*types.Struct)
	head, rest, _ := strings.Cut(path, ".")
	nf := append([]Val(nil), sv.F...)
	for i := 0; i < st.NumFields(); i++ {
		if st.Field(i).Name() == head {
			nf[i] = updatePath(sv.F[i], st.Field(i).Type(), rest, nv)
			return StructV{sv.Typ, nf}
		}
	}
	fail("no field %s", head)
	return nil
}

func (st *State) loadAt(p PtrV, t types.Type, sub string, old bool) Val {
	t = resolveTP(t)
	switch classify(t) {
	case kScalar:
		lf := leaf{sub, t, sortOf(t)}
		tm := st.readLeaf(p, lf, old)
		st.assumeRange(tm, t)
		return TV{tm, t}
	case kSlice:
		rd := func(s string) Term { return st.readLeaf(p, leaf{joinPath(sub, s), types.Typ[types.Int], SInt}, old) }
		sv := SliceV{rd("#arr"), tInt(0), rd("#len"), rd("#cap"), t}
		st.assumeSliceWF(sv)
		st.assumeAllocated(sv.Arr)
		return sv
	case kStruct:
		s := t.Underlying().(*types.Struct)
		out := StructV{Typ: t}
		for i := 0; i < s.NumFields(); i++ {
			out.F = append(out.F, st.loadAt(p, s.Field(i).Type(), joinPath(sub, s.Field(i).Name()), old))
		}
		return out
	case kLock, kOpaque:
		return StructV{Typ: t}
	}
	fail("loadAt: unsupported type %s", t)
	return nil
}

func (st *State) assumeSliceWF(s SliceV) {
	if st.inQuant > 0 {
		return
	}
	key := "wf:" + s.Arr.S + s.Len.S + s.Cap.S + s.Off.S
	if st.nonnil[key] {
		return
	}
	st.nonnil[key] = true
	st.assume(tAnd(tLe(tInt(0), s.Len), tLe(s.Len, s.Cap), tLe(s.Cap, Term{"9223372036854775807", SInt})))
}

func (st *State) assumeRange(t Term, typ types.Type) {
	if t.Sort != SInt || st.inQuant > 0 {
		return
	}
	if ct, ok := resolveTP(typ).Underlying().(*types.Chan); ok {
		// channels of different element types are different objects: tag the channel with its element type
		key := "cht:" + t.S
		if !st.nonnil[key] {
			st.nonnil[key] = true
			st.vc.strLits["fun.chtag"] = "(Int) Int"
			tag := st.vc.typeID(ct.Elem())
			st.assume(tOr(tEq(t, tInt(0)), tEq(app("chtag", SInt, t), tag)))
		}
		return
	}
	lo, hi, ok := intRange(typ)
	if !ok {
		return
	}
	key := "rg:" + t.S
	if st.nonnil[key] {
		return
	}
	st.nonnil[key] = true
	st.assume(Term{"(and (<= " + lo + " " + t.S + ") (<= " + t.S + " " + hi + "))", SBool})
}

func (st *State) store(p PtrV, v Val) {
	if p.Kind == "local" {
		if p.Path == "" {
			st.fr.setLocal(p.Local, v)
		} else {
			cur, ok := st.fr.lookupLocal(p.Local)
			if !ok {
				cur = st.zeroVal(p.Local.typ)
			}
			st.fr.setLocal(p.Local, updatePath(cur, p.Local.typ, p.Path, v))
		}
		return
	}
	st.storeAt(p, p.Elem, "", v)
}

func (st *State) storeAt(p PtrV, t types.Type, sub string, v Val) {
	t = resolveTP(t)
	switch classify(t) {
	case kScalar:
		tv, ok := v.(TV)
		if !ok {
			if pv, isP := v.(PtrV); isP {
				tv = TV{st.encodePtr(pv), t}
			} else if fv, isF := v.(FuncV); isF {
				tv = TV{st.encodeFunc(fv), t}
			} else {
				fail("store of non-scalar %T into scalar leaf %s", v, sub)
			}
		}
		st.writeLeaf(p, leaf{sub, t, sortOf(t)}, tv.T)
	case kSlice:
		sv := v.(SliceV)
		wr := func(s string, tm Term) { st.writeLeaf(p, leaf{joinPath(sub, s), types.Typ[types.Int], SInt}, tm) }
		if sv.Off.S != "0" {
			fail("storing a slice with non-zero offset into the heap is outside the modelled subset")
		}
		wr("#arr", sv.Arr)
		wr("#len", sv.Len)
		wr("#cap", sv.Cap)
	case kStruct:
		s := t.Underlying().(*types.Struct)
		sv, ok := v.(StructV)
		if !ok {
			fail("store of %T into struct", v)
		}
		for i := 0; i < s.NumFields(); i++ {
			if i < len(sv.F) {
				st.storeAt(p, s.Field(i).Type(), joinPath(sub, s.Field(i).Name()), sv.F[i])
			}
		}
	case kLock, kOpaque:
	default:
		fail("storeAt: unsupported type %s", t)
	}
}

// encodePtr turns a pointer into an Int ref (only whole-object pointers and declared ref-embedded fields).
func (st *State) encodePtr(p PtrV) Term {
	if p.Kind == "obj" && p.Path == "" {
		return p.Base
	}
	if p.Kind == "cell" && p.Path == "" {
		return p.Base
	}
	if p.Kind == "obj" && refEmbedded[p.Root+"."+p.Path] {
		return p.Base // identity embedding (offset 0): see DESIGN, heap model
	}
	if p.Kind == "obj" && p.Path == "" {
		return p.Base
	}
	fail("cannot encode interior pointer %s", fmtVal(p))
	return Term{}
}

// refEmbedded: value-embedded struct fields whose address escapes into the heap; modelled at the same ref as the parent (they are the first field).
var refEmbedded = map[string]bool{"linkedlist.List.root": true}

func (st *State) encodeFunc(f FuncV) Term {
	// a function value as an opaque non-nil Int, stable per closure site
	name := "fn." + funcKey(f.Fn)
	st.vc.strLits[name] = "fn"
	return Term{smtIdent(name), SInt}
}

// asPtr converts a pointer-typed value into a PtrV addressing the pointee.
func (st *State) asPtr(v Val, ptrType types.Type) PtrV {
	switch x := v.(type) {
	case PtrV:
		return x
	case TV:
		el := derefType(ptrType)
		if el == nil {
			el = derefType(x.Typ)
		}
		if el == nil {
			fail("asPtr: not a pointer type %v", ptrType)
		}
		if classify(el) == kStruct || classify(el) == kLock || classify(el) == kOpaque {
			return PtrV{Kind: "obj", Root: rootName(el), Base: x.T, Elem: el, Typ: ptrType}
		}
		if n, ok := types.Unalias(el).(*types.Named); ok {
			if _, sp := specialScalarSort(n); sp {
				return PtrV{Kind: "cell", Root: typeRepr(el), Base: x.T, Elem: el, Typ: ptrType}
			}
		}
		return PtrV{Kind: "cell", Root: typeRepr(el), Base: x.T, Elem: el, Typ: ptrType}
	}
	fail("asPtr of %T", v)
	return PtrV{}
}

func (st *State) zeroTerm(t types.Type) Term {
	s := sortOf(t)
	switch s {
	case SInt:
		return tInt(0)
	case SBool:
		return tFalse
	case SStr:
		return st.vc.strLit("")
	case "Real":
		return Term{"0.0", "Real"}
	}
	// type parameter: declared zero constant
	name := "zero." + s
	st.vc.strLits[name] = s
	return Term{smtIdent(name), s}
}

func (vc *VC) strLit(s string) Term {
	name := "str." + fmt.Sprintf("%q", s)
	vc.strLits[name] = "Str:" + s
	return Term{smtIdent(name), SStr}
}

func (st *State) zeroVal(t types.Type) Val {
	t = resolveTP(t)
	switch classify(t) {
	case kScalar:
		return TV{st.zeroTerm(t), t}
	case kSlice:
		return SliceV{tInt(0), tInt(0), tInt(0), tInt(0), t}
	case kStruct:
		s := t.Underlying().(*types.Struct)
		out := StructV{Typ: t}
		for i := 0; i < s.NumFields(); i++ {
			out.F = append(out.F, st.zeroVal(s.Field(i).Type()))
		}
		return out
	case kLock, kOpaque:
		return StructV{Typ: t}
	}
	fail("zeroVal: %s", t)
	return nil
}

// freshVal: unconstrained value of a type (with range / well-formedness facts).
func (st *State) freshVal(prefix string, t types.Type) Val {
	t = resolveTP(t)
	switch classify(t) {
	case kScalar:
		c := st.declare(prefix, sortOf(t))
		st.assumeRange(c, t)
		return TV{c, t}
	case kSlice:
		sv := SliceV{st.declare(prefix+".arr", SInt), tInt(0), st.declare(prefix+".len", SInt), st.declare(prefix+".cap", SInt), t}
		st.assumeSliceWF(sv)
		if !st.noAllocAssume {
			st.assumeAllocated(sv.Arr)
		}
		return sv
	case kStruct:
		s := t.Underlying().(*types.Struct)
		out := StructV{Typ: t}
		for i := 0; i < s.NumFields(); i++ {
			out.F = append(out.F, st.freshVal(prefix+"."+s.Field(i).Name(), s.Field(i).Type()))
		}
		return out
	case kTuple:
		tp := t.(*types.Tuple)
		out := TupleV{}
		for i := 0; i < tp.Len(); i++ {
			out.E = append(out.E, st.freshVal(fmt.Sprintf("%s.%d", prefix, i), tp.At(i).Type()))
		}
		return out
	case kLock, kOpaque:
		return StructV{Typ: t}
	}
	fail("freshVal: %s", t)
	return nil
}

// ---------- allocation ----------

const allocKey = "alloc"

func (st *State) allocRef(prefix string) Term {
	st.vc.setKeySort(allocKey, arrSort(SInt, SBool))
	r := st.declare(prefix, SInt)
	al := st.get(allocKey)
	st.assume(tAnd(tNot(tEq(r, tInt(0))), tGt(r, tInt(0)), tNot(tSelect(al, r))))
	st.set(allocKey, tStore(al, r, tTrue))
	st.nonnil[r.S] = true
	st.nonnil["fresh:"+r.S] = true
	return r
}

func (st *State) assumeAllocated(r Term) {
	if st.inQuant > 0 {
		return
	}
	st.vc.setKeySort(allocKey, arrSort(SInt, SBool))
	key := "al:" + r.S
	if st.nonnil[key] {
		return
	}
	st.nonnil[key] = true
	// refs are non-negative; non-nil refs present in the entry state are allocated in the entry state
	st.assume(tAnd(tGe(r, tInt(0)), tImp(tNot(tEq(r, tInt(0))), tSelect(st.get(allocKey), r))))
}

// ---------- obligations ----------

func (st *State) oblige(kind, label string, goal Term, info string) {
	vc := st.vc
	if st.fr != nil && st.fr.fn != vc.fn {
		label += "@in:" + funcKey(st.fr.fn)
	}
	name := vc.key + "#" + kind + ":" + label
	if goal.S == "true" {
		// still recorded: trivially discharged
	}
	o := &Obligation{Name: name, Kind: kind, Fn: vc.key, lines: st.lines, Goal: goal, Info: info, Mode: vc.mode, vc: vc}
	if vc.fc != nil {
		o.Props = vc.fc.Props
	}
	// a clause label "name@C18@C03" restricts the obligation to those properties
	if i := strings.Index(label, "@C"); i >= 0 {
		var ps []string
		for _, part := range strings.Split(label[i+1:], "@") {
			part = strings.SplitN(part, ".", 2)[0]
			if len(part) >= 3 && part[0] == 'C' && part[1] >= '0' && part[1] <= '9' {
				ps = append(ps, part)
			}
		}
		if len(ps) > 0 {
			o.Props = ps
			o.OnlyProps = true
		}
	}
	o.Modules = map[string]bool{}
	for m := range vc.modules {
		o.Modules[m] = true
	}
	vc.obls = append(vc.obls, o)
}

func sortedKeys[V any](m map[string]V) []string {
	ks := make([]string, 0, len(m))
	for k := range m {
		ks = append(ks, k)
	}
	sort.Strings(ks)
	return ks
}

// assumeFrameFor: a key havocked before its first use (loop entry) still satisfies the function's frame condition, which is an
// implicit loop invariant (asserted at loop entry and at every back edge).
func (st *State) assumeFrameFor(key string) {
	if st.fr == nil || st.vc.fc == nil || st.inFrameAssume {
		return
	}
	st.inFrameAssume = true
	defer func() { st.inFrameAssume = false }()
	for _, g := range st.frameGoals(st.topNames(), map[string]bool{key: true}) {
		if g.label != allocKey {
			st.assume(g.goal)
		}
	}
}
