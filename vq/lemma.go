package main

import (
	"fmt"
	"go/types"
	"os"
	"path/filepath"
	"strings"
)

func tpSubstReset() { tpSubst = map[*types.TypeParam]types.Type{} }

type excuseInfo struct {
	id   string
	obl  string
	term Term
}

// evalExcuses: evaluate the excuse predicates of known findings in the entry state.
func (vc *VC) evalExcuses(st *State) {
	for _, k := range vc.knownExcuses {
		e, err := parseCExpr(k.Excuse)
		if err != nil {
			fail("known finding %s: bad excuse: %v", k.ID, err)
		}
		ec := st.evalCtx()
		t := ec.evalBool(e)
		c := st.define("excuse", t)
		if vc.excused == nil {
			vc.excused = map[string]*excuseInfo{}
		}
		vc.excused[k.ID] = &excuseInfo{id: k.ID, obl: k.Obligation, term: c}
	}
}

// excuseFor: the excuse term applying to an obligation name, if any.
func (vc *VC) excuseFor(name string) *excuseInfo {
	for _, ex := range vc.excused {
		if ex.obl == name || (strings.HasSuffix(ex.obl, "*") && strings.HasPrefix(name, strings.TrimSuffix(ex.obl, "*"))) {
			return ex
		}
	}
	return nil
}

// excuseStillFails: under the excuse, at least one instance of the obligation must not be provable (the finding still reproduces).
func (vc *VC) excuseStillFails(ex *excuseInfo, work string) bool {
	n := 0
	for _, o := range vc.obls {
		if vc.excuseFor(o.Name) != ex {
			continue
		}
		q := vc.buildQuery(o, vc.heap0All(), ex.term.S, true)
		file := filepath.Join(work, fmt.Sprintf("excuse-%s-%d.smt2", sanitizeFile(ex.id), n))
		n++
		os.WriteFile(file, []byte(q), 0o644)
		r, _ := solveQuery(file, 3, 5, false)
		if r.status != "unsat" {
			return true
		}
	}
	return false
}

// lemmaObligations: lemmas tagged with the property: forall params. requires => ensures, over the spec prelude.
func (env *Env) lemmaObligations(prop string) (*VC, []*Obligation) {
	vc := &VC{w: env.w, cs: env.cs, spec: env.spec, key: "lemma", keySort: map[string]string{}, prims: map[string]bool{}, modules: map[string]bool{}, mode: "SEQ",
		strLits: map[string]string{}, inlined: map[string]bool{}, usedContracts: map[string]bool{}, assumptionsUsed: map[string]bool{}, globalsUsed: map[string]bool{}}
	var out []*Obligation
	for _, lm := range env.cs.Lemmas {
		tagged := false
		for _, p := range lm.Props {
			if p == prop {
				tagged = true
			}
		}
		if !tagged {
			continue
		}
		func() {
			defer func() {
				if r := recover(); r != nil {
					if u, ok := r.(unsupported); ok {
						o := &Obligation{Name: lm.Pkg + ".lemma." + lm.Name + "#lemma:unbound", Kind: "lemma", Fn: "lemma " + lm.Name, Goal: tFalse, Info: u.msg, Modules: map[string]bool{}, Mode: "SEQ"}
						out = append(out, o)
						return
					}
					panic(r)
				}
			}()
			st := vc.newState()
			st.fr = &Frame{vals: nil, names: map[string]Val{}}
			ec := &EvalCtx{st: st, names: map[string]Val{}, pkg: vc.pkgByShort(lm.Pkg), tparams: map[string]types.Type{}, bound: map[string]Val{}}
			for _, p := range lm.Params {
				srt := p.Type
				switch p.Type {
				case "int", "ref":
					srt = SInt
				case "bool":
					srt = SBool
				}
				c := st.declare("lm."+p.Name, srt)
				ec.bound[p.Name] = TV{c, nil}
			}
			for _, c := range lm.Clauses {
				if c.Kw == "requires" {
					e, err := c.expr()
					if err != nil {
						fail("%v", err)
					}
					st.assume(ec.evalBool(e))
				}
			}
			for i, c := range lm.Clauses {
				if c.Kw == "ensures" {
					e, err := c.expr()
					if err != nil {
						fail("%v", err)
					}
					o := &Obligation{Name: fmt.Sprintf("%s.lemma.%s#lemma:%s", lm.Pkg, lm.Name, clauseLabel(c, i)), Kind: "lemma", Fn: "lemma " + lm.Name, lines: st.lines,
						Goal: ec.evalBool(e), Info: e.String(), Modules: map[string]bool{}, Mode: "SEQ", Props: lm.Props}
					for m := range vc.modules {
						o.Modules[m] = true
					}
					out = append(out, o)
				}
			}
		}()
	}
	return vc, out
}

// tryReplay: turn a refuted obligation's model into a run of the real code. Returns (confirmed, detail).
func tryReplay(env *Env, o *Obligation, rp *replayRecord) (bool, string) {
	return replayObligation(env, o, rp)
}
