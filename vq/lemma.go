package main

import (
	"fmt"
	"go/types"
	"os"
	"path/filepath"
	"strings"
)

func tpSubstReset() { tpSubst = map[*types.TypeParam]types.Type{} }

type excuseInfo struct {
	id   string
	obl  string
	term Term
}

// evalExcuses: evaluate the excuse predicates of known findings in the entry state.
func (vc *VC) evalExcuses(st *State) {
	for _, k := range vc.knownExcuses {
		e, err := parseCExpr(k.Excuse)
		if err != nil {
			fail("known finding %s: bad excuse: %v", k.ID, err)
		}
		ec := st.evalCtx()
		t := ec.evalBool(e)
		c := st.define("excuse", t)
		if vc.excused == nil {
			vc.excused = map[string]*excuseInfo{}
		}
		vc.excused[k.ID] = &excuseInfo{id: k.ID, obl: k.Obligation, term: c}
	}
}

// excuseFor: the excuse term applying to an obligation name, if any.
func (vc *VC) excuseFor(name string) *excuseInfo {
	for _, ex := range vc.excused {
		if ex.obl == name || (strings.HasSuffix(ex.obl, "*") && strings.HasPrefix(name, strings.TrimSuffix(ex.obl, "*"))) {
			return ex
		}
	}
	return nil
}

// excuseStillFails: under the excuse, at least one instance of the obligation must not be provable (the finding still reproduces).
func (vc *VC) excuseStillFails(ex *excuseInfo, work string) bool {
	n := 0
	for _, o := range vc.obls {
		if vc.excuseFor(o.Name) != ex {
			continue
		}
		q := vc.buildQuery(o, vc.heap0All(), ex.term.S, true)
		file := filepath.Join(work, fmt.Sprintf("excuse-%s-%d.smt2", sanitizeFile(ex.id), n))
		n++
		os.WriteFile(file, []byte(q), 0o644)
		r, _ := solveQuery(file, 3, 5, false)
		if r.status != "unsat" {
			return true
		}
	}
	return false
}

// lemmaObligations: lemmas tagged with the property: forall params. requires => ensures, over the spec prelude.
func (env *Env) lemmaObligations(prop string) (*VC, []*Obligation) {
	vc := &VC{w: env.w, cs: env.cs, spec: env.spec, key: "lemma", keySort: map[string]string{}, prims: map[string]bool{}, modules: map[string]bool{}, mode: "SEQ",
		strLits: map[string]string{}, inlined: map[string]bool{}, usedContracts: map[string]bool{}, assumptionsUsed: map[string]bool{}, globalsUsed: map[string]bool{}}
	var out []*Obligation
	for _, lm := range env.cs.Lemmas {
		tagged := false
		for _, p := range lm.Props {
			if p == prop {
				tagged = true
			}
		}
		if !tagged {
			continue
		}
		func() {
			defer func() {
				if r := recover(); r != nil {
					if u, ok := r.(unsupported); ok {
						o := &Obligation{Name: lm.Pkg + ".lemma." + lm.Name + "#lemma:unbound", Kind: "lemma", Fn: "lemma " + lm.Name, Goal: tFalse, Info: u.msg, Modules: map[string]bool{}, Mode: "SEQ"}
						out = append(out, o)
						return
					}
					panic(r)
				}
			}()
			vc.lemmaPkg = lm.Pkg
			st := vc.newState()
			st.fr = &Frame{vals: nil, names: map[string]Val{}}
			ec := &EvalCtx{st: st, names: map[string]Val{}, pkg: vc.pkgByShort(lm.Pkg), tparams: map[string]types.Type{}, bound: map[string]Val{}}
			for _, p := range lm.Params {
				c := st.declare("lm."+p.Name, lemmaSort(p.Type))
				ec.bound[p.Name] = TV{c, nil}
			}
			var reqs []*CExpr
			var enss []*CExpr
			for _, c := range lm.Clauses {
				e, err := c.expr()
				if err != nil {
					fail("%v", err)
				}
				if c.Kw == "requires" {
					reqs = append(reqs, e)
					st.assume(ec.evalBool(e))
				} else if c.Kw == "ensures" {
					enss = append(enss, e)
				}
			}
			if lm.Induct != "" {
				// strong induction hypothesis: the lemma for every smaller non-negative value of the induction variable
				k := ec.bound[lm.Induct].(TV).T
				q := Term{smtIdent(vc.fresh("ih." + lm.Induct)), SInt}
				sub := ec.child()
				sub.bound[lm.Induct] = TV{q, nil}
				var rs, es []Term
				st.inQuant++
				defer func() { st.inQuant-- }()
				for _, r := range reqs {
					rs = append(rs, sub.evalBool(r))
				}
				for _, e := range enss {
					es = append(es, sub.evalBool(e))
				}
				body := tImp(tAnd(append([]Term{tLe(tInt(0), q), tLt(q, k)}, rs...)...), tAnd(es...))
				pat := findSelectWith(body.S, q.S)
				if pat != "" {
					st.addLine(fmt.Sprintf("(assert (forall ((%s Int)) (! %s :pattern (%s))))", q.S, body.S, pat))
				} else {
					st.addLine(fmt.Sprintf("(assert (forall ((%s Int)) %s))", q.S, body.S))
				}
			}
			for i, c := range lm.Clauses {
				if c.Kw == "ensures" {
					e, err := c.expr()
					if err != nil {
						fail("%v", err)
					}
					o := &Obligation{Name: fmt.Sprintf("%s.lemma.%s#lemma:%s", lm.Pkg, lm.Name, clauseLabel(c, i)), Kind: "lemma", Fn: "lemma " + lm.Name, lines: st.lines,
						Goal: ec.evalBool(e), Info: e.String(), Modules: map[string]bool{}, Mode: "SEQ", Props: lm.Props}
					for m := range vc.modules {
						o.Modules[m] = true
					}
					out = append(out, o)
				}
			}
		}()
	}
	return vc, out
}

// tryReplay: turn a refuted obligation's model into a run of the real code. Returns (confirmed, detail).
func tryReplay(env *Env, o *Obligation, rp *replayRecord) (bool, string) {
	return replayObligation(env, o, rp)
}

func lemmaSort(t string) string {
	switch t {
	case "int", "ref", "Int":
		return SInt
	case "bool", "Bool":
		return SBool
	}
	return t
}

// applyLemma: assume a proved lemma, instantiated at the given arguments (the induction variable stays universally quantified).
func (vc *VC) applyLemma(st *State, text string) {
	// text: Name(arg, ...) at entry
	i := strings.Index(text, "(")
	j := strings.LastIndex(text, ")")
	if i < 0 || j < i {
		fail("bad apply clause %q", text)
	}
	name := strings.TrimSpace(text[:i])
	var lm *Lemma
	for _, l := range vc.cs.Lemmas {
		if l.Name == name {
			lm = l
		}
	}
	if lm == nil {
		fail("apply: unknown lemma %s", name)
	}
	args := splitTargets(text[i+1 : j])
	ec := st.evalCtx()
	sub := ec.child()
	sub.names = map[string]Val{}
	var qdecl string
	var qv Term
	ai := 0
	for _, p := range lm.Params {
		if p.Name == lm.Induct {
			qv = Term{smtIdent(vc.fresh("ap." + p.Name)), SInt}
			qdecl = "(" + qv.S + " Int)"
			sub.bound[p.Name] = TV{qv, nil}
			continue
		}
		if ai >= len(args) {
			fail("apply %s: too few arguments", name)
		}
		e, err := parseCExpr(args[ai])
		if err != nil {
			fail("apply %s: %v", name, err)
		}
		ai++
		sub.bound[p.Name] = TV{ec.evalTerm(e), nil}
	}
	if p := vc.pkgByShort(lm.Pkg); p != nil {
		sub.pkg = p
	}
	var rs, es []Term
	st.inQuant++
	defer func() { st.inQuant-- }()
	for _, c := range lm.Clauses {
		e, err := c.expr()
		if err != nil {
			fail("%v", err)
		}
		if c.Kw == "requires" {
			rs = append(rs, sub.evalBool(e))
		} else if c.Kw == "ensures" {
			es = append(es, sub.evalBool(e))
		}
	}
	body := tImp(tAnd(rs...), tAnd(es...))
	vc.usedContracts["lemma "+lm.Pkg+"."+lm.Name] = true
	if qdecl == "" {
		st.assume(body)
		return
	}
	pat := findSelectWith(body.S, qv.S)
	if pat != "" {
		st.addLine(fmt.Sprintf("(assert (forall (%s) (! %s :pattern (%s))))", qdecl, body.S, pat))
	} else {
		st.addLine(fmt.Sprintf("(assert (forall (%s) %s))", qdecl, body.S))
	}
}
