package main

import (
	"fmt"
	"go/constant"
	"go/types"
	"os"
	"sort"
	"strings"

	"golang.org/x/tools/go/packages"
	"golang.org/x/tools/go/ssa"
	"golang.org/x/tools/go/ssa/ssautil"
)

const modPath = "github.com/goptics/varmq"

// World is the loaded program: the module's packages plus the std packages whose bodies we verify.
type World struct {
	RepoDir string
	Pkgs    []*packages.Package
	Prog    *ssa.Program
	SSAPkgs map[string]*ssa.Package // by import path
	Funcs   map[string]*ssa.Function // by canonical name, see funcKey
	GlobalInit map[string]GlobalInit // "<pkg>.<name>" -> how the package variable is initialised (only if never assigned elsewhere)
}

// GlobalInit: a package-level variable that is assigned exactly once, in the package initialiser.
type GlobalInit struct {
	Kind string // "const" (integer/bool constant) or "newerr" (errors.New / fmt.Errorf: a distinct non-nil value)
	Term Term
}

func repoDir() string {
	if d := os.Getenv("VQ_REPO"); d != "" {
		return d
	}
	return "/repo"
}

func loadWorld() (*World, error) {
	dir := repoDir()
	cfg := &packages.Config{
		Mode:       packages.LoadAllSyntax,
		Dir:        dir,
		BuildFlags: []string{"-tags=verif"},
		Env:        append(os.Environ(), "GOFLAGS=-mod=mod", "GOPROXY=off"),
	}
	pkgs, err := packages.Load(cfg, "./...", "container/heap", "slices")
	if err != nil {
		return nil, err
	}
	var errs []string
	for _, p := range pkgs {
		for _, e := range p.Errors {
			errs = append(errs, e.Error())
		}
	}
	if len(errs) > 0 {
		return nil, fmt.Errorf("load errors:\n%s", strings.Join(errs, "\n"))
	}
	prog, spkgs := ssautil.AllPackages(pkgs, ssa.GlobalDebug)
	prog.Build()
	w := &World{RepoDir: dir, Pkgs: pkgs, Prog: prog, SSAPkgs: map[string]*ssa.Package{}, Funcs: map[string]*ssa.Function{}}
	for i, p := range pkgs {
		if spkgs[i] == nil {
			continue
		}
		path := p.PkgPath
		if !(path == modPath || strings.HasPrefix(path, modPath+"/") || path == "container/heap" || path == "slices") {
			continue
		}
		if strings.HasPrefix(path, modPath+"/examples") || strings.HasPrefix(path, modPath+"/mocks") {
			continue
		}
		w.SSAPkgs[path] = spkgs[i]
		w.collect(spkgs[i])
	}
	w.scanGlobals()
	return w, nil
}

// scanGlobals: package variables initialised in init with a constant or errors.New(...) and never stored to by any other function of the module
// are treated as constants (frame:global-const audit, see DESIGN 2.4).
func (w *World) scanGlobals() {
	w.GlobalInit = map[string]GlobalInit{}
	stores := map[*ssa.Global]int{}
	initVal := map[*ssa.Global]GlobalInit{}
	var visit func(f *ssa.Function, isInit bool)
	visit = func(f *ssa.Function, isInit bool) {
		for _, b := range f.Blocks {
			for _, in := range b.Instrs {
				st, ok := in.(*ssa.Store)
				if !ok {
					continue
				}
				g, ok := st.Addr.(*ssa.Global)
				if !ok {
					continue
				}
				stores[g]++
				if !isInit {
					stores[g] += 100
					continue
				}
				switch v := st.Val.(type) {
				case *ssa.Const:
					if v.Value != nil && (v.Value.Kind() == constant.Int) {
						initVal[g] = GlobalInit{"const", tIntStr(v.Value.ExactString())}
					} else if v.Value != nil && v.Value.Kind() == constant.Bool {
						initVal[g] = GlobalInit{"const", tBool(constant.BoolVal(v.Value))}
					}
				case *ssa.Call:
					if fn, ok := v.Call.Value.(*ssa.Function); ok && (fn.String() == "errors.New" || fn.String() == "fmt.Errorf") {
						initVal[g] = GlobalInit{Kind: "newerr"}
					}
				}
			}
		}
		for _, a := range f.AnonFuncs {
			visit(a, isInit)
		}
	}
	for _, p := range w.SSAPkgs {
		for _, m := range p.Members {
			if f, ok := m.(*ssa.Function); ok {
				visit(f, f.Name() == "init")
			}
		}
	}
	for _, f := range w.Funcs {
		if f.Parent() == nil && f.Signature.Recv() != nil {
			visit(f, false)
		}
	}
	for g, gi := range initVal {
		if stores[g] == 1 {
			w.GlobalInit[shortPkg(g.Pkg.Pkg.Path())+"."+g.Name()] = gi
		}
	}
}

func shortPkg(path string) string {
	if path == modPath {
		return "varmq"
	}
	if i := strings.LastIndex(path, "/"); i >= 0 && strings.HasPrefix(path, modPath) {
		return path[i+1:]
	}
	return path
}

// funcKey: "<pkg>.<Recv>.<name>" or "<pkg>.<name>", anonymous functions get "$n" suffixes as go/ssa names them.
func funcKey(f *ssa.Function) string {
	if f.Parent() != nil {
		// anonymous: parentKey + "$n"
		name := f.Name() // e.g. initPoolNode$1
		i := strings.LastIndex(name, "$")
		return funcKey(f.Parent()) + name[i:]
	}
	pkg := ""
	if f.Pkg != nil {
		pkg = shortPkg(f.Pkg.Pkg.Path())
	} else if f.Object() != nil && f.Object().Pkg() != nil {
		pkg = shortPkg(f.Object().Pkg().Path())
	}
	if recv := f.Signature.Recv(); recv != nil {
		t := recv.Type()
		if p, ok := t.(*types.Pointer); ok {
			t = p.Elem()
		}
		if n, ok := t.(*types.Named); ok {
			return pkg + "." + n.Obj().Name() + "." + f.Name()
		}
	}
	return pkg + "." + f.Name()
}

func (w *World) addFunc(f *ssa.Function) {
	if f == nil || f.Blocks == nil {
		return
	}
	k := funcKey(f)
	if _, dup := w.Funcs[k]; dup {
		return
	}
	w.Funcs[k] = f
	for _, a := range f.AnonFuncs {
		w.addFunc(a)
	}
}

func (w *World) collect(p *ssa.Package) {
	scope := p.Pkg.Scope()
	for _, name := range scope.Names() {
		obj := scope.Lookup(name)
		switch o := obj.(type) {
		case *types.Func:
			w.addFunc(w.Prog.FuncValue(o))
		case *types.TypeName:
			named, ok := o.Type().(*types.Named)
			if !ok {
				continue
			}
			for i := 0; i < named.NumMethods(); i++ {
				w.addFunc(w.Prog.FuncValue(named.Method(i)))
			}
		}
	}
	if init := p.Func("init"); init != nil {
		w.addFunc(init)
	}
}

func (w *World) sortedFuncKeys() []string {
	ks := make([]string, 0, len(w.Funcs))
	for k := range w.Funcs {
		ks = append(ks, k)
	}
	sort.Strings(ks)
	return ks
}

func cmdDump(args []string) {
	w, err := loadWorld()
	if err != nil {
		fmt.Fprintln(os.Stderr, err)
		os.Exit(2)
	}
	if len(args) == 0 {
		for _, k := range w.sortedFuncKeys() {
			fmt.Println(k)
		}
		return
	}
	for _, a := range args {
		f := w.Funcs[a]
		if f == nil {
			fmt.Println("no such function:", a)
			continue
		}
		f.WriteTo(os.Stdout)
	}
}

func (vc *VC) pkgByShort(short string) *types.Package {
	for path, p := range vc.w.SSAPkgs {
		if shortPkg(path) == short {
			return p.Pkg
		}
	}
	return nil
}
