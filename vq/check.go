package main

import (
	"bytes"
	"encoding/json"
	"os/exec"
	"fmt"
	"os"
	"path/filepath"
	"regexp"
	"sort"
	"strings"
	"time"
)

type KnownFinding struct {
	ID         string `json:"id"`
	Property   string `json:"property"`
	Obligation string `json:"obligation"` // exact obligation name, or prefix ending in '*'
	Excuse     string `json:"excuse,omitempty"`
	What       string `json:"what"`
	Replay     string `json:"replay,omitempty"`
	Status     string `json:"status"` // open | fixed
	Commit     string `json:"commit,omitempty"`
}

func loadKnownFindings() []KnownFinding {
	var kf struct {
		Findings []KnownFinding `json:"findings"`
	}
	data, err := os.ReadFile(filepath.Join(verifDir(), "known_findings.json"))
	if err != nil {
		return nil
	}
	if err := json.Unmarshal(data, &kf); err != nil {
		fmt.Fprintln(os.Stderr, "known_findings.json:", err)
		os.Exit(2)
	}
	return kf.Findings
}

func (k *KnownFinding) matches(prop, name string) bool {
	if k.Property != prop && k.Property != "*" {
		return false
	}
	if strings.HasSuffix(k.Obligation, "*") {
		return strings.HasPrefix(name, strings.TrimSuffix(k.Obligation, "*"))
	}
	return k.Obligation == name
}

type propTarget struct {
	key  string
	mode string
}

// targetsFor: functions whose contracts carry the property tag ("C04" or "C19@B1").
func (env *Env) targetsFor(prop string) []propTarget {
	var out []propTarget
	for _, k := range sortedKeys(env.cs.Funcs) {
		fc := env.cs.Funcs[k]
		for _, p := range fc.Props {
			id, mode, _ := strings.Cut(p, "@")
			if id == "CORE" && coreProps[prop] {
				// the dispatch chain and the lifecycle functions: every worker-level property depends on them keeping their contracts
				// (one dispatcher, buffered signal channel, queues left intact ...), so they are part of each of those checks
				id = prop
			}
			if id == prop {
				if mode == "" {
					mode = "SEQ"
				}
				dup := false
				for _, o := range out {
					if o.key == k && o.mode == mode {
						dup = true
					}
				}
				if !dup {
					out = append(out, propTarget{k, mode})
				}
			}
		}
	}
	return out
}

var coreProps = map[string]bool{"C01": true, "C02": true, "C03": true, "C04": true, "C06": true, "C09": true, "C14": true, "C17": true, "C18": true}

type lockFile map[string][]string

func loadLock() lockFile {
	lf := lockFile{}
	data, err := os.ReadFile(filepath.Join(verifDir(), "obligations.lock"))
	if err == nil {
		json.Unmarshal(data, &lf)
	}
	return lf
}

type nameStatus struct {
	Name      string
	Kind      string
	Fn        string
	Mode      string
	Instances int
	Status    string // proved failed unknown error
	Backend   string
	Ms        int64
	Bytes     int
	Info      string
	Worst     *Obligation
	Unstable  bool
}

var b1Phase1 []*FuncResult
var b1AtomicChecked int

var rank = map[string]int{"proved": 0, "unknown": 1, "error": 2, "failed": 3}

func cmdCheck(args []string) {
	tier := os.Getenv("VERIF_TIER")
	if tier == "" {
		tier = "quick"
	}
	var prop string
	writeLock := false
	for i := 0; i < len(args); i++ {
		switch {
		case args[i] == "--tier" && i+1 < len(args):
			tier = args[i+1]
			i++
		case strings.HasPrefix(args[i], "--tier="):
			tier = strings.TrimPrefix(args[i], "--tier=")
		case args[i] == "--write-lock":
			writeLock = true
		default:
			prop = args[i]
		}
	}
	if prop == "" {
		fmt.Fprintln(os.Stderr, "usage: vq check <property> [--tier quick|thorough]")
		os.Exit(2)
	}
	seed := 0
	fmt.Sscanf(os.Getenv("VERIF_SEED"), "%d", &seed)
	t0 := time.Now()
	env, err := loadEnv()
	if err != nil {
		fmt.Fprintln(os.Stderr, "vq: cannot load /repo:", err)
		os.Exit(2)
	}
	targets := env.targetsFor(prop)
	var b1Sweep []string
	if prop == "C19" {
		var contracted []string
		contracted, b1Sweep = env.b1Targets()
		targets = nil
		for _, k := range contracted {
			targets = append(targets, propTarget{k, "B1"})
		}
	}
	if len(targets) == 0 {
		fmt.Fprintf(os.Stderr, "vq: no contract carries property %s\n", prop)
		os.Exit(2)
	}
	known := loadKnownFindings()
	quickS, fullS, all := 4, 15, false
	if tier == "thorough" {
		quickS, fullS, all = 10, 60, true
	}
	var results []*FuncResult
	var jobs []solveJob
	var sweptUncovered []string
	if prop == "C19" {
		// phase 2 of B1: functions without a contract that touch guarded state and were not inlined into a verified caller
		inl := map[string]bool{}
		var phase1 []*FuncResult
		for _, t := range targets {
			fr := env.verifyFuncWithKnown(t.key, t.mode, prop, known)
			phase1 = append(phase1, fr)
			if fr.VC != nil {
				for k := range fr.VC.inlined {
					inl[k] = true
				}
			}
		}
		// unexported helpers that some verified function inlines are checked in their callers' lock context, not standalone
		var sweepRes []*FuncResult
		for _, k := range b1Sweep {
			fr := env.verifyFuncWithKnown(k, "B1", prop, known)
			sweepRes = append(sweepRes, fr)
			if fr.VC != nil {
				for c := range fr.VC.inlined {
					inl[c] = true
				}
			}
		}
		for i, k := range b1Sweep {
			if inl[k] && !exportedFuncKey(k) {
				continue
			}
			targets = append(targets, propTarget{k, "B1"})
			phase1 = append(phase1, sweepRes[i])
		}
		b1Phase1 = phase1
	}
	for ti, t := range targets {
		var fr *FuncResult
		if prop == "C19" && ti < len(b1Phase1) {
			fr = b1Phase1[ti]
		} else {
			fr = env.verifyFuncWithKnown(t.key, t.mode, prop, known)
		}
		if prop == "C19" && env.cs.Funcs[t.key] == nil && len(fr.Unbound) > 0 {
			// swept function outside the executor's subset: reported as not covered, not as a violation
			sweptUncovered = append(sweptUncovered, t.key+": "+strings.Join(fr.Unbound, "; "))
			fr.Unbound = nil
			fr.VC = nil
		}
		results = append(results, fr)
		if fr.VC != nil {
			if t.mode == "B1" {
				// only the lock-discipline obligations belong to this mode; the function's other obligations are checked under their own properties
				var keep []*Obligation
				for _, o := range fr.VC.obls {
					if o.Kind == "guard" || (o.Kind == "assert" && strings.Contains(o.Name, "#assert:race-")) {
						// asserts labelled race-*: hand-off disciplines of plain fields that no lock guards (who may write them, and when)
						keep = append(keep, o)
					}
				}
				fr.VC.obls = keep
				fr.VC.feasLines, fr.VC.loopFeas = nil, nil
				if len(fr.Unbound) > 0 && env.cs.Funcs[t.key] != nil {
					// contract-binding failures are reported by the properties that own the contract
					sweptUncovered = append(sweptUncovered, t.key+": "+strings.Join(fr.Unbound, "; "))
					fr.Unbound = nil
				}
			}
			if t.mode == "B2" {
				// B2-lite: only the obligations written for this mode (labels b2-*) are claimed; everything else is SEQ's business
				var keep []*Obligation
				safety := fr.VC.fc != nil && len(fr.VC.fc.clauses("b2_safety")) > 0
				for _, o := range fr.VC.obls {
					if strings.Contains(o.Name, ":b2-") {
						keep = append(keep, o)
					} else if safety && (o.Kind == "bounds" || o.Kind == "nil" || o.Kind == "div") && !strings.Contains(o.Name, "@in:") {
						// functions declared b2_safety: their own run-time safety obligations must also hold under the interference model
						o.Name = strings.Replace(o.Name, "#"+o.Kind+":", "#"+o.Kind+":b2-", 1)
						keep = append(keep, o)
					}
				}
				fr.VC.obls = keep
				fr.VC.feasLines, fr.VC.loopFeas = nil, nil
			}
			for _, o := range fr.VC.obls {
				if o.OnlyProps {
					keep := false
					for _, p := range o.Props {
						if p == prop {
							keep = true
						}
					}
					if !keep {
						continue
					}
				}
				jobs = append(jobs, solveJob{fr.VC, o, fr.VC.heap0All()})
			}
		}
	}
	// lemmas tagged with this property
	lemmaVC, lemmaObls := env.lemmaObligations(prop)
	for _, o := range lemmaObls {
		jobs = append(jobs, solveJob{lemmaVC, o, lemmaVC.heap0All()})
	}
	work, _ := os.MkdirTemp("", "vq-"+prop+"-")
	defer os.RemoveAll(work)
	var feas []solveJob
	for _, fr := range results {
		if fr.VC == nil {
			continue
		}
		for i, l := range fr.VC.feasLines {
			o := &Obligation{Name: fmt.Sprintf("%s#canary:path%d", fr.Key, i+1), Kind: "canary", Fn: fr.Key, lines: l, Goal: tFalse, Modules: map[string]bool{}}
			for m := range fr.VC.modules {
				o.Modules[m] = true
			}
			fr.VC.canaries = append(fr.VC.canaries, o)
			feas = append(feas, solveJob{fr.VC, o, fr.VC.heap0All()})
		}
		for _, ln := range sortedKeys(fr.VC.loopFeas) {
			for i, l := range fr.VC.loopFeas[ln] {
				o := &Obligation{Name: fmt.Sprintf("%s#canary:%s.body%d", fr.Key, ln, i+1), Kind: "loopcanary", Fn: fr.Key, lines: l, Goal: tFalse, Modules: map[string]bool{}, Info: ln}
				for m := range fr.VC.modules {
					o.Modules[m] = true
				}
				fr.VC.loopCanaries = append(fr.VC.loopCanaries, o)
				feas = append(feas, solveJob{fr.VC, o, fr.VC.heap0All()})
			}
		}
	}
	tSolve := time.Now()
	dischargeAll(jobs, work, quickS, fullS, all, solverWorkers())
	dischargeAll(feas, filepath.Join(work, "canary"), 2, 2, false, solverWorkers())
	solveWall := time.Since(tSolve).Seconds()

	// aggregate by name
	byName := map[string]*nameStatus{}
	var order []string
	addObl := func(o *Obligation) {
		ns := byName[o.Name]
		if ns == nil {
			ns = &nameStatus{Name: o.Name, Kind: o.Kind, Fn: o.Fn, Mode: o.Mode, Status: "proved", Info: o.Info}
			byName[o.Name] = ns
			order = append(order, o.Name)
		}
		ns.Instances++
		ns.Ms += o.Ms
		if o.Bytes > ns.Bytes {
			ns.Bytes = o.Bytes
		}
		if o.Unstable {
			ns.Unstable = true
		}
		if rank[o.Status] > rank[ns.Status] || ns.Worst == nil {
			if rank[o.Status] >= rank[ns.Status] {
				ns.Status = o.Status
				ns.Worst = o
				ns.Backend = o.Backend
			}
		}
	}
	for _, j := range jobs {
		addObl(j.o)
	}
	sort.Strings(order)

	type violation struct {
		Obligation string
		Reason     string
		Replay     string
		NoInput    bool
	}
	var violations []violation
	var knownLines []string
	var unboundList []string
	// unbound contracts
	for _, fr := range results {
		if len(fr.Unbound) > 0 {
			name := fr.Key + "#contract-unbound"
			msg := strings.Join(fr.Unbound, "; ")
			unboundList = append(unboundList, fr.Key+": "+msg)
			if kf := matchKnown(known, prop, name); kf != nil {
				knownLines = append(knownLines, fmt.Sprintf("KNOWN-FINDING: property=%s %s", prop, kf.What))
				continue
			}
			violations = append(violations, violation{Obligation: name, Reason: "contract-unbound: " + msg, NoInput: true})
		}
		if fr.VC != nil && len(fr.VC.canaries) > 0 && len(fr.Unbound) == 0 {
			dead := 0
			for _, o := range fr.VC.canaries {
				if o.Status == "proved" {
					dead++
				}
			}
			if dead == len(fr.VC.canaries) {
				violations = append(violations, violation{Obligation: fr.Key + "#vacuity", Reason: "every return path of the function is infeasible under its contract (vacuous proof)", NoInput: true})
			}
			for _, ln := range fr.VC.deadLoops() {
				violations = append(violations, violation{Obligation: fr.Key + "#vacuity:" + ln, Reason: "every path through the body of " + ln + " is infeasible (vacuous loop proof)", NoInput: true})
			}
		}
	}
	// B1 vacuity: every guarded_by / frozen rule must be exercised by at least one access somewhere (else the rule no longer binds to the code)
	if prop == "C19" {
		hits := map[string]bool{}
		for _, fr := range results {
			if fr.VC != nil {
				for k := range fr.VC.guardHits {
					hits[k] = true
				}
			}
		}
		nAtomic, badAtomic := env.atomicRuleViolations()
		for _, b := range badAtomic {
			violations = append(violations, violation{Obligation: "atomic-rule:" + strings.SplitN(b, ":", 2)[0], Reason: "field shared between goroutines without a lock must have a sync/atomic type: " + b, NoInput: true})
		}
		b1AtomicChecked = nAtomic
		probe := &VC{cs: env.cs}
		for _, r := range probe.guardRules() {
			if r.lock == "frozen" {
				continue // frozen fields are legitimately never written outside constructors
			}
			if !hits[r.root+"."+r.field] {
				violations = append(violations, violation{Obligation: "guard-rule:" + r.root + "." + r.field, Reason: "no access to this guarded field was found in any function: the guarded_by rule no longer binds to the code", NoInput: true})
			}
		}
	}
	// structural contract of the wire format (C12): pinned json tags
	if prop == "C12" {
		_, badTags := env.jsonTagViolations()
		for _, b := range badTags {
			violations = append(violations, violation{Obligation: "jsontag:" + strings.SplitN(b, ":", 2)[0], Reason: "wire format changed: " + b, NoInput: true})
		}
	}
	// lock file
	lock := loadLock()
	missing := 0
	if !writeLock {
		for _, n := range lock[prop] {
			if byName[n] == nil {
				covered := false
				for _, u := range unboundList {
					if strings.HasPrefix(n, strings.SplitN(u, ":", 2)[0]+"#") {
						covered = true
					}
				}
				if !covered {
					missing++
					violations = append(violations, violation{Obligation: n, Reason: "obligation in obligations.lock was not generated (contract no longer binds to this code)", NoInput: true})
				}
			}
		}
	}
	// failed / undischarged obligations
	discharged, total, kfObls := 0, 0, 0
	byBackend := map[string]int{}
	var unstable []string
	var solverMs int64
	usedKnown := map[string]bool{}
	for _, n := range order {
		ns := byName[n]
		solverMs += ns.Ms
		if ns.Status == "proved" {
			total++
			discharged++
			byBackend[ns.Backend]++
			if ns.Unstable {
				unstable = append(unstable, n)
			}
			continue
		}
		if kf := matchKnown(known, prop, n); kf != nil && kf.Excuse == "" {
			kfObls++
			if !usedKnown[kf.ID] {
				usedKnown[kf.ID] = true
				knownLines = append(knownLines, fmt.Sprintf("KNOWN-FINDING: property=%s %s [%s]", prop, kf.What, kf.ID))
			}
			continue
		}
		total++
		v := violation{Obligation: n}
		o := ns.Worst
		switch ns.Status {
		case "failed":
			v.Reason = "refuted by " + o.Backend + ": " + ns.Info
		case "unknown":
			v.Reason = "not discharged (was discharged on the unchanged tree): " + ns.Info
			v.NoInput = true
		default:
			v.Reason = "solver error: " + firstLines(o.SolverOut, 2)
			v.NoInput = true
		}
		violations = append(violations, v)
	}
	// known findings with excuse: the obligation is proved under !excuse by construction (the engine assumed !excuse); check it still fails under excuse
	for _, fr := range results {
		if fr.VC == nil {
			continue
		}
		for id, ex := range fr.VC.excused {
			kf := findKnown(known, id)
			if kf == nil {
				continue
			}
			still := fr.VC.excuseStillFails(ex, work)
			if still {
				if !usedKnown[kf.ID] {
					usedKnown[kf.ID] = true
					knownLines = append(knownLines, fmt.Sprintf("KNOWN-FINDING: property=%s %s [%s]", prop, kf.What, kf.ID))
				}
			} else {
				fmt.Printf("note: known finding %s no longer reproduces under its excuse (fixed?)\n", kf.ID)
			}
		}
	}

	// replay files + VIOLATION lines
	replayDir := filepath.Join(verifDir(), "replays")
	if d := os.Getenv("VQ_REPLAY_DIR"); d != "" {
		replayDir = d
	}
	os.MkdirAll(replayDir, 0o755)
	for i := range violations {
		v := &violations[i]
		ns := byName[v.Obligation]
		rp := replayRecord{Property: prop, Obligation: v.Obligation, Reason: v.Reason, Tier: tier}
		if ns != nil && ns.Worst != nil {
			o := ns.Worst
			rp.Info = o.Info
			rp.Backend = o.Backend
			rp.SolverOutput = o.SolverOut
			rp.Model = o.Model
			rp.Function = o.Fn
			if o.Status == "failed" {
				confirmed, detail := tryReplay(env, o, &rp)
				rp.ReplayOutcome = detail
				if !confirmed {
					v.NoInput = true
				}
			}
		}
		rp.NoFailingInput = v.NoInput
		file := filepath.Join(replayDir, sanitizeFile(v.Obligation)+".json")
		data := marshalPlain(rp)
		os.WriteFile(file, data, 0o644)
		v.Replay = file
	}

	// evidence
	var fnList []string
	prims := map[string]bool{}
	assum := map[string]bool{}
	usedContracts := map[string]bool{}
	inlined := map[string]bool{}
	modes := map[string]int{}
	deadPaths, allPaths := 0, 0
	for _, fr := range results {
		fnList = append(fnList, fr.Key+" ["+fr.Mode+"]")
		if fr.VC == nil {
			continue
		}
		for p := range fr.VC.prims {
			prims[p] = true
		}
		for a := range fr.VC.assumptionsUsed {
			assum[a] = true
		}
		for c := range fr.VC.usedContracts {
			usedContracts[c] = true
		}
		for c := range fr.VC.inlined {
			inlined[c] = true
		}
		for _, o := range fr.VC.canaries {
			allPaths++
			if o.Status == "proved" {
				deadPaths++
			}
		}
	}
	for _, n := range order {
		modes[byName[n].Mode]++
	}
	// trusted contracts: callee contracts used whose function is not itself verified under any property (trusted) or is an interface contract
	var trusted []string
	trusted = append(trusted, "vq itself: go/ssa -> SMT translation, contract parser (this repository, /verif/vq)", "golang.org/x/tools/go/ssa v0.29.0, go/types", "SMT solvers: z3 4.8.12, z3 5.1.0, cvc5 1.0.3 (an obligation counts as discharged when one answers unsat)")
	for _, c := range sortedKeys(usedContracts) {
		if strings.HasPrefix(c, "iface ") {
			trusted = append(trusted, "interface contract assumed of every implementation: "+strings.TrimPrefix(c, "iface "))
		} else if fc := env.cs.Funcs[c]; fc != nil && fc.Trusted {
			trusted = append(trusted, "trusted (unverified) contract: "+c)
		}
	}
	for _, p := range sortedKeys(prims) {
		trusted = append(trusted, "primitive contract (built into vq): "+p)
	}
	var assumptions []string
	for _, a := range sortedKeys(assum) {
		assumptions = append(assumptions, a)
	}
	pkgsSeen := map[string]bool{}
	for _, fr := range results {
		pkgsSeen[strings.SplitN(fr.Key, ".", 2)[0]] = true
	}
	for _, a := range env.cs.Assumptions {
		pk := strings.SplitN(a, ":", 2)[0]
		if pkgsSeen[pk] {
			assumptions = append(assumptions, a)
		}
	}
	assumptions = append(assumptions, "machine integers are modelled as mathematical integers with a no-overflow obligation at every + - * (kind ovf); conversions are modelled exactly")
	seenMode := map[string]bool{}
	for _, t := range targets {
		seenMode[t.mode] = true
	}
	if seenMode["SEQ"] {
		assumptions = append(assumptions, "sequential mode: each function is verified running without interference from other goroutines")
	}
	if seenMode["B1"] {
		assumptions = append(assumptions,
			"B1 lock discipline: decided for the fields declared guarded_by/frozen in the contract files only (Queue chunk pointers, PriorityQueue.insertionCount and heap items, Manager.items/roundRobinIndex, List.len and Node.next/prev, worker.eventLoopSignal/errorChan/tickers/ctx/cancel); memory synchronised otherwise (atomics, channel hand-off of job fields, Response buffers) is not decided",
			"B1: lock identity is syntactic (the lock reached through the same object term as the field); 'any T.mx' rules accept any held lock of that type (a node is assumed to belong to at most one list, a heapQueue to one PriorityQueue)",
			"B1: objects allocated by the function under verification are exempt until it returns (constructors); publication inside the constructor is not tracked",
			"B1: functions that neither have a contract nor are inlined into a verified caller are swept with an empty contract; those the executor cannot run are listed under coverage.b1_not_covered and are NOT checked",
			"B1: `concurrent` closures (the per-job worker closures) must not store to captured variables; reads of captured variables and stores by non-concurrent closures are not checked")
	}
	if seenMode["B2"] {
		assumptions = append(assumptions, "B2-lite: obligations labelled b2-* are proved under a stated, narrow interference model and nothing else is modelled: (i) worker.status is arbitrary after the blocking waits (WaitUntilFinished, PauseAndWait); (ii) a compare-and-swap, and an atomic Add after an earlier Load of the same location, meet the known value or an arbitrary other one; (iii) an atomic Load after this path's own Add of the same location, and WgCounter.Count(), return the known value or another one (for Count: at most the known one); (iv) List.Remove's result and the length of a NodeSlice snapshot are not determined by what the caller knew")
	}
	// requires clauses of entry points are assumptions about callers
	for _, fr := range results {
		if fc := env.cs.Funcs[fr.Key]; fc != nil {
			for _, c := range fc.clauses("requires") {
				assumptions = append(assumptions, "precondition of "+fr.Key+": "+c.Text)
			}
		}
	}
	var samples []map[string]interface{}
	for i, n := range order {
		if i%maxInt(1, len(order)/6) == 0 && len(samples) < 8 {
			ns := byName[n]
			samples = append(samples, map[string]interface{}{"obligation": n, "kind": ns.Kind, "instances": ns.Instances, "result": ns.Status, "backend": ns.Backend, "ms": ns.Ms, "smt_bytes": ns.Bytes, "meaning": ns.Info})
		}
	}
	srcs := map[string]string{}
	for k, v := range env.cs.Source {
		srcs[k] = v
	}
	var selftest map[string]interface{}
	if tier == "thorough" && os.Getenv("VQ_REPO") == "" {
		selftest = selfTest(prop)
	}
	ev := map[string]interface{}{
		"property_id": prop, "tier": tier, "seed": seed, "level": "proof", "wall_s": round1(time.Since(t0).Seconds()), "violations": len(violations),
		"coverage": map[string]interface{}{
			"obligations": total, "discharged": discharged, "obligation_instances": len(jobs),
			"checker_cmd":              "bin/vq check " + prop + " --tier " + tier,
			"trusted_base":             trusted,
			"functions_under_contract": fnList,
			"callee_contracts_used":    sortedKeys(usedContracts),
			"inlined_callees":          sortedKeys(inlined),
			"by_backend":               byBackend,
			"solver_s":                 round1(float64(solverMs) / 1000),
			"solver_wall_s":            round1(solveWall),
			"unstable":                 unstable,
			"modes":                    modes,
			"samples":                  samples,
			"vacuity":                  map[string]interface{}{"lock_names": len(lock[prop]), "lock_names_missing": missing, "return_paths": allPaths, "infeasible_return_paths": deadPaths},
			"known_findings":           knownLines,
			"known_finding_obligations": kfObls,
			"unbound_contracts":        unboundList,
			"bounded_standins":         []string{},
			"selftest":                 selftest,
			"cross_check":              crossCheckSummary(jobs),
			"b1_not_covered":           sweptUncovered,
			"b1_atomic_fields_checked": b1AtomicChecked,
			"contract_sources":         srcs,
			"lemmas":                   len(lemmaObls),
		},
		"assumptions": assumptions,
	}
	evDir := filepath.Join(verifDir(), "evidence")
	if d := os.Getenv("VQ_EVIDENCE_DIR"); d != "" {
		evDir = d // seed runs: keep the committed evidence (from the unchanged tree) intact
	}
	os.MkdirAll(evDir, 0o755)
	data := marshalPlain(ev)
	os.WriteFile(filepath.Join(evDir, prop+".json"), data, 0o644)

	if writeLock {
		// Only contract-derived obligations are pinned: their names come from clause labels, so a harmless edit of the code does not rename
		// them, and their absence means a contract clause silently stopped binding (anchor not found, loop gone, clause skipped).
		// Code-derived safety obligations (nil/bounds/ovf/div/chan/frame/pre/guard: numbered by instruction) are checked whenever
		// they are generated but never required to exist.
		var pinned []string
		for _, n := range order {
			switch byName[n].Kind {
			case "post", "assert", "inv-init", "inv-keep", "dec", "lemma", "unreach", "pool":
				if !strings.Contains(n, "@in:") && !strings.Contains(n, ".frame.") {
					pinned = append(pinned, n)
				}
			}
		}
		lock[prop] = pinned
		order = pinned
		ld := marshalPlain(lock)
		os.WriteFile(filepath.Join(verifDir(), "obligations.lock"), ld, 0o644)
	}

	for _, l := range knownLines {
		fmt.Println(l)
	}
	fmt.Printf("%s %s: %d functions, %d obligations (%d instances), %d discharged, %d violations, %.1fs\n", prop, tier, len(results), total, len(jobs), discharged, len(violations), time.Since(t0).Seconds())
	if len(violations) > 0 {
		for _, v := range violations {
			suffix := ""
			if v.NoInput {
				suffix = " no-failing-input-found"
			}
			fmt.Printf("  %s: %s\n", v.Obligation, v.Reason)
			fmt.Printf("VIOLATION property=%s replay=%s%s\n", prop, v.Replay, suffix)
		}
		os.RemoveAll(work) // deferred calls do not run on os.Exit
		os.Exit(1)
	}
}

// marshalPlain: indented JSON without HTML escaping (contract text contains <, >, &).
func marshalPlain(v interface{}) []byte {
	var b bytes.Buffer
	enc := json.NewEncoder(&b)
	enc.SetEscapeHTML(false)
	enc.SetIndent("", " ")
	enc.Encode(v)
	return b.Bytes()
}

// selfTest (thorough tier): every stored seeded change of this property (/verif/seeded/<prop>-k, not superseded) is applied to a scratch
// copy of the CURRENT tree and the quick check is run on it; the check is expected to alarm. The outcome is reported in the evidence
// (coverage.selftest); it never changes the exit status of the check (a seed that no longer applies to the current tree is skipped).
func selfTest(prop string) map[string]interface{} {
	dir := filepath.Join(verifDir(), "seeded")
	ents, _ := os.ReadDir(dir)
	exe, _ := os.Executable()
	repo := "/repo"
	if d := os.Getenv("VQ_REPO"); d != "" {
		repo = d
	}
	applied, detected := 0, 0
	var missed, skipped []string
	// candidates: the stored, not superseded changes of this property; at most four of them, evenly spread over the rounds, are run
	// (each costs one quick check of the property; the full corpus is exercised by tools/run-seeds.sh)
	var cands []os.DirEntry
	for _, e := range ents {
		if !e.IsDir() || !strings.HasPrefix(e.Name(), prop+"-") {
			continue
		}
		meta, _ := os.ReadFile(filepath.Join(dir, e.Name(), "meta.json"))
		if strings.Contains(string(meta), "\"status\": \"superseded") {
			continue
		}
		cands = append(cands, e)
	}
	available := len(cands)
	if len(cands) > 4 {
		var pick []os.DirEntry
		for i := 0; i < 4; i++ {
			pick = append(pick, cands[i*(len(cands)-1)/3])
		}
		cands = pick
	}
	for _, e := range cands {
		scratch, _ := os.MkdirTemp("", "vq-selftest-")
		cp := exec.Command("rsync", "-a", "--exclude", ".git", repo+"/", scratch+"/")
		if out, err := cp.CombinedOutput(); err != nil {
			skipped = append(skipped, e.Name()+": copy failed: "+firstLines(string(out), 1))
			os.RemoveAll(scratch)
			continue
		}
		os.RemoveAll(filepath.Join(scratch, ".git"))
		patchFile := filepath.Join(dir, e.Name(), "patch.head.diff") // the change re-based on the current HEAD, when the original no longer applies
		if _, err := os.Stat(patchFile); err != nil {
			patchFile = filepath.Join(dir, e.Name(), "patch.diff")
		}
		ap := exec.Command("patch", "-p1", "-s", "-f", "-i", patchFile)
		ap.Dir = scratch
		if out, err := ap.CombinedOutput(); err != nil {
			skipped = append(skipped, e.Name()+": patch does not apply to the current tree: "+firstLines(string(out), 1))
			os.RemoveAll(scratch)
			continue
		}
		applied++
		evd, _ := os.MkdirTemp("", "vq-selftest-ev-")
		c := exec.Command(exe, "check", prop, "--tier", "quick")
		c.Env = append(os.Environ(), "VQ_REPO="+scratch, "VQ_EVIDENCE_DIR="+evd, "VQ_REPLAY_DIR="+evd)
		out, _ := c.CombinedOutput()
		if strings.Contains(string(out), "VIOLATION property="+prop) {
			detected++
		} else {
			missed = append(missed, e.Name())
		}
		os.RemoveAll(scratch)
		os.RemoveAll(evd)
	}
	return map[string]interface{}{"seeds_available": available, "seeds_applied": applied, "seeds_detected": detected, "seeds_missed": missed, "seeds_skipped": skipped,
		"note": "must-fail corpus: each stored seeded change applied to a scratch copy of the current tree, quick check expected to alarm"}
}

// crossCheckSummary: thorough tier: how the sampled obligations fared with the solvers that did not discharge them.
func crossCheckSummary(jobs []solveJob) map[string]interface{} {
	sampled, agree, undecided := 0, 0, 0
	var disagreements []string
	for _, j := range jobs {
		if len(j.o.CrossCheck) == 0 {
			continue
		}
		sampled++
		for _, c := range j.o.CrossCheck {
			switch {
			case strings.HasSuffix(c, ":unsat"):
				agree++
			case strings.HasSuffix(c, ":sat"):
				disagreements = append(disagreements, j.o.Name+" "+c)
			default:
				undecided++
			}
		}
	}
	if sampled == 0 {
		return nil
	}
	return map[string]interface{}{"obligations_sampled": sampled, "other_solver_agrees": agree, "other_solver_undecided": undecided, "disagreements": disagreements,
		"note": "every 16th discharged obligation re-submitted to the two solvers that did not discharge it (20 s each)"}
}

func maxInt(a, b int) int {
	if a > b {
		return a
	}
	return b
}

func round1(f float64) float64 { return float64(int(f*10+0.5)) / 10 }

var fileRe = regexp.MustCompile(`[^A-Za-z0-9_.#@:-]`)

func sanitizeFile(s string) string { return fileRe.ReplaceAllString(s, "_") }

func matchKnown(known []KnownFinding, prop, name string) *KnownFinding {
	for i := range known {
		if known[i].Status == "open" && known[i].matches(prop, name) {
			return &known[i]
		}
	}
	return nil
}

func findKnown(known []KnownFinding, id string) *KnownFinding {
	for i := range known {
		if known[i].ID == id {
			return &known[i]
		}
	}
	return nil
}

type replayRecord struct {
	Property       string `json:"property"`
	Obligation     string `json:"obligation"`
	Function       string `json:"function,omitempty"`
	Reason         string `json:"reason"`
	Info           string `json:"meaning,omitempty"`
	Tier           string `json:"tier"`
	Backend        string `json:"backend,omitempty"`
	SolverOutput   string `json:"solver_output,omitempty"`
	Model          string `json:"model,omitempty"`
	ReplayTest     string `json:"replay_test,omitempty"`
	ReplayPkg      string `json:"replay_pkg,omitempty"`
	ReplayOutcome  string `json:"replay_outcome,omitempty"`
	NoFailingInput bool   `json:"no_failing_input_found"`
}

// verifyFuncWithKnown: like verifyFunc, with the excuses of known findings for this function assumed negated (so that only other failures remain).
func (env *Env) verifyFuncWithKnown(key, mode, prop string, known []KnownFinding) *FuncResult {
	fr := &FuncResult{Key: key, Mode: mode}
	fn := env.w.Funcs[key]
	if fn == nil {
		fr.Unbound = []string{"function not found in the tree (renamed or removed)"}
		return fr
	}
	vc := env.newVC(key, mode)
	for i := range known {
		k := &known[i]
		if k.Status == "open" && k.Excuse != "" && (k.Property == prop || k.Property == "*") && strings.HasPrefix(k.Obligation, key+"#") {
			vc.knownExcuses = append(vc.knownExcuses, k)
		}
	}
	fr.VC = vc
	tpSubstReset()
	vc.run()
	fr.Unbound = vc.unbound
	return fr
}
