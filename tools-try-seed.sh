#!/bin/sh
# usage: tools-try-seed.sh <patch.diff> [vq verify args...]   -- applies a patch to a scratch copy of /repo and runs vq verify on it
P=$1; shift
rm -rf /tmp/mut && cp -r /repo /tmp/mut && rm -rf /tmp/mut/.git && (cd /tmp/mut && patch -p1 -s < "$P") && VQ_REPO=/tmp/mut /verif/bin/vq verify "$@"; rc=$?
rm -rf /tmp/mut; exit $rc
