; DRAFT spec prelude module `10-queue` (design artefact, not framework code; see DESIGN.md §2.2 and Appendix D)
; EXPECT: sat unsat unsat unsat unsat unsat unsat unsat
(set-logic ALL)
; ---------- sorts ----------
(define-sort Ref () Int)                       ; 0 = nil
(define-sort IntMap () (Array Int Int))
(define-sort RefMap () (Array Int Int))
(define-sort BoolMap () (Array Int Bool))
(declare-sort T 0)                             ; a type parameter
(define-sort TArr () (Array Int T))            ; contents of a []T backing array
(define-sort DataMap () (Array Int TArr))      ; Chunk.Data per chunk reference

; ---------- Go integer semantics ----------
(define-fun inInt  ((x Int)) Bool (and (<= (- 9223372036854775808) x) (<= x 9223372036854775807)))
(define-fun inU32  ((x Int)) Bool (and (<= 0 x) (<= x 4294967295)))
(define-fun inU64  ((x Int)) Bool (and (<= 0 x) (<= x 18446744073709551615)))
(define-fun inU8   ((x Int)) Bool (and (<= 0 x) (<= x 255)))
(define-fun toU32  ((x Int)) Int (mod x 4294967296))            ; conversion wraps
(define-fun toInt64 ((x Int)) Int (let ((m (mod x 18446744073709551616))) (ite (> m 9223372036854775807) (- m 18446744073709551616) m)))
; Go's / and % truncate toward zero; SMT-LIB div/mod are Euclidean. (b != 0 is a separate obligation.)
(define-fun goquo ((a Int) (b Int)) Int (ite (>= a 0) (ite (> b 0) (div a b) (- (div a (- b)))) (ite (> b 0) (- (div (- a) b)) (div (- a) (- b)))))
(define-fun gorem ((a Int) (b Int)) Int (- a (* b (goquo a b))))

; ---------- linkedbuffer.Chunk ----------
(define-fun RI_Chunk ((R IntMap) (W IntMap) (Cap IntMap) (c Ref)) Bool
  (and (<= 0 (select R c)) (<= (select R c) (select W c)) (<= (select W c) (select Cap c))))

; ---------- queues.Queue: view = lg[r..w) ----------
(define-fun RI_Queue ((R IntMap) (W IntMap) (Cap IntMap) (Nxt RefMap) (Data DataMap) (base IntMap) (inQ BoolMap) (lg TArr)
                      (rc Ref) (wc Ref) (r Int) (w Int) (maxCap Int)) Bool
 (and (>= maxCap 1) (select inQ rc) (select inQ wc) (= (select Nxt wc) 0)
  (forall ((c Ref)) (! (=> (select inQ c)
      (and (not (= c 0)) (<= 0 (select R c)) (<= (select R c) (select W c)) (<= (select W c) (select Cap c)) (>= (select Cap c) 1)
           (<= (select base rc) (select base c)) (<= (select base c) (select base wc))
           (=> (not (= c wc)) (and (not (= (select Nxt c) 0)) (select inQ (select Nxt c)) (= (select W c) (select Cap c))
                                   (= (select base (select Nxt c)) (+ (select base c) (select Cap c)))
                                   (>= (select W (select Nxt c)) 1)))            ; a linked chunk is never empty-written: Enqueue pushes into it at once
           (=> (not (= c rc)) (= (select R c) 0))))
      :pattern ((select inQ c))))
  ; the index intervals [base, base+cap) of distinct chunks are disjoint (hence bases are distinct and, with the link clause, the chain is contiguous)
  (forall ((c Ref) (d Ref)) (! (=> (and (select inQ c) (select inQ d) (not (= c d)))
                                   (or (<= (+ (select base c) (select Cap c)) (select base d)) (<= (+ (select base d) (select Cap d)) (select base c))))
      :pattern ((select inQ c) (select inQ d))))
  (= (+ (select base rc) (select R rc)) r) (= (+ (select base wc) (select W wc)) w)
  (forall ((c Ref) (i Int)) (! (=> (and (select inQ c) (<= (select R c) i) (< i (select W c)))
                                   (= (select (select Data c) i) (select lg (+ (select base c) i))))
      :pattern ((select (select Data c) i))))))
(define-fun queue_len ((r Int) (w Int)) Int (- w r))
(define-fun newChunkCap ((cur Int) (maxCap Int)) Int (let ((g (+ cur (goquo cur 2)))) (ite (< g maxCap) g maxCap)))   ; min(c + c/2, max)


; ===== self-check =====
; -- RI_Queue is satisfiable (empty queue with one chunk)                  ; expect sat
(push)
(declare-const R IntMap) (declare-const W IntMap) (declare-const Cap IntMap) (declare-const Nxt RefMap) (declare-const Data DataMap)
(declare-const base IntMap) (declare-const inQ BoolMap) (declare-const lg TArr)
(assert (RI_Queue R W Cap Nxt Data base inQ lg 7 7 0 0 102400)) (check-sat) (pop)
; -- Queue.Dequeue, hop path: read chunk drained, Next != nil  =>  next chunk is non-empty and its slot 0 holds lg[r]
(push)
(declare-const R IntMap) (declare-const W IntMap) (declare-const Cap IntMap) (declare-const Nxt RefMap) (declare-const Data DataMap)
(declare-const base IntMap) (declare-const inQ BoolMap) (declare-const lg TArr)
(declare-const rc Ref) (declare-const wc Ref) (declare-const r Int) (declare-const w Int) (declare-const mc Int)
(assert (RI_Queue R W Cap Nxt Data base inQ lg rc wc r w mc))
(assert (>= (select R rc) (select W rc))) (assert (not (= (select Nxt rc) 0)))
(define-fun nx () Ref (select Nxt rc))
(assert (not (and (< (select R nx) (select W nx)) (= (select (select Data nx) (select R nx)) (select lg r)) (< r w))))
(check-sat) (pop)
; -- Queue.Dequeue, empty path: read chunk drained and Next == nil  =>  r == w
(push)
(declare-const R IntMap) (declare-const W IntMap) (declare-const Cap IntMap) (declare-const Nxt RefMap) (declare-const Data DataMap)
(declare-const base IntMap) (declare-const inQ BoolMap) (declare-const lg TArr)
(declare-const rc Ref) (declare-const wc Ref) (declare-const r Int) (declare-const w Int) (declare-const mc Int)
(assert (RI_Queue R W Cap Nxt Data base inQ lg rc wc r w mc))
(assert (>= (select R rc) (select W rc))) (assert (= (select Nxt rc) 0))
(assert (not (= r w))) (check-sat) (pop)
; -- Queue.Dequeue, hop path preserves RI (read chunk advanced, popped slot, old read chunk leaves inQ)
(push)
(declare-const R IntMap) (declare-const W IntMap) (declare-const Cap IntMap) (declare-const Nxt RefMap) (declare-const Data DataMap)
(declare-const base IntMap) (declare-const inQ BoolMap) (declare-const lg TArr) (declare-const zero T)
(declare-const rc Ref) (declare-const wc Ref) (declare-const r Int) (declare-const w Int) (declare-const mc Int)
(assert (RI_Queue R W Cap Nxt Data base inQ lg rc wc r w mc))
(assert (>= (select R rc) (select W rc))) (assert (not (= (select Nxt rc) 0)))
(define-fun nx () Ref (select Nxt rc))
(assert (not (RI_Queue (store R nx (+ (select R nx) 1)) W Cap Nxt (store Data nx (store (select Data nx) (select R nx) zero)) base (store inQ rc false) lg nx wc (+ r 1) w mc)))
(check-sat) (pop)
; -- newChunkCap >= 1 and <= maxCap
(push) (declare-const c Int) (declare-const m Int) (assert (and (>= c 1) (>= m 1) (not (and (>= (newChunkCap c m) 1) (<= (newChunkCap c m) m))))) (check-sat) (pop)
; -- Queue.Enqueue, same-chunk path (Push succeeds on the write chunk) preserves RI and appends at w
(push)
(declare-const R IntMap) (declare-const W IntMap) (declare-const Cap IntMap) (declare-const Nxt RefMap) (declare-const Data DataMap)
(declare-const base IntMap) (declare-const inQ BoolMap) (declare-const lg TArr) (declare-const item T)
(declare-const rc Ref) (declare-const wc Ref) (declare-const r Int) (declare-const w Int) (declare-const mc Int)
(assert (RI_Queue R W Cap Nxt Data base inQ lg rc wc r w mc))
(assert (< (select W wc) (select Cap wc)))
(assert (not (RI_Queue R (store W wc (+ (select W wc) 1)) Cap Nxt (store Data wc (store (select Data wc) (select W wc) item)) base inQ (store lg w item) rc wc r (+ w 1) mc)))
(check-sat) (pop)
; -- Queue.Enqueue, new-chunk path (write chunk full; fresh chunk n linked, ghost base/inQ set, item pushed at slot 0) preserves RI
(push)
(declare-const R IntMap) (declare-const W IntMap) (declare-const Cap IntMap) (declare-const Nxt RefMap) (declare-const Data DataMap)
(declare-const base IntMap) (declare-const inQ BoolMap) (declare-const lg TArr) (declare-const item T) (declare-const alloc BoolMap)
(declare-const rc Ref) (declare-const wc Ref) (declare-const r Int) (declare-const w Int) (declare-const mc Int) (declare-const n Ref)
(assert (RI_Queue R W Cap Nxt Data base inQ lg rc wc r w mc))
(assert (forall ((c Ref)) (! (=> (select inQ c) (select alloc c)) :pattern ((select inQ c)))))
(assert (>= (select W wc) (select Cap wc))) (assert (and (not (= n 0)) (not (select alloc n))))
(define-fun nc () Int (newChunkCap (select Cap wc) mc))
(assert (not (RI_Queue (store R n 0) (store W n 1) (store Cap n nc) (store (store Nxt n 0) wc n) (store Data n (store (select Data n) 0 item))
                       (store base n (+ (select base wc) (select Cap wc))) (store inQ n true) (store lg w item) rc n r (+ w 1) mc)))
(check-sat) (pop)
; -- Queue.Dequeue, same-chunk path
(push)
(declare-const R IntMap) (declare-const W IntMap) (declare-const Cap IntMap) (declare-const Nxt RefMap) (declare-const Data DataMap)
(declare-const base IntMap) (declare-const inQ BoolMap) (declare-const lg TArr) (declare-const zero T)
(declare-const rc Ref) (declare-const wc Ref) (declare-const r Int) (declare-const w Int) (declare-const mc Int)
(assert (RI_Queue R W Cap Nxt Data base inQ lg rc wc r w mc))
(assert (< (select R rc) (select W rc)))
(assert (not (and (< r w) (= (select (select Data rc) (select R rc)) (select lg r))
  (RI_Queue (store R rc (+ (select R rc) 1)) W Cap Nxt (store Data rc (store (select Data rc) (select R rc) zero)) base inQ lg rc wc (+ r 1) w mc))))
(check-sat) (pop)
