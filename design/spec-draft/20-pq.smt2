; DRAFT spec prelude module `20-pq` (design artefact, not framework code; see DESIGN.md §2.2 and Appendix D)
; EXPECT: unsat unsat unsat unsat unsat unsat unsat unsat unsat unsat
(set-logic ALL)
; ---------- sorts ----------
(define-sort Ref () Int)                       ; 0 = nil
(define-sort IntMap () (Array Int Int))
(define-sort RefMap () (Array Int Int))
(define-sort BoolMap () (Array Int Bool))
(declare-sort T 0)                             ; a type parameter
(define-sort TArr () (Array Int T))            ; contents of a []T backing array
(define-sort DataMap () (Array Int TArr))      ; Chunk.Data per chunk reference

; ---------- Go integer semantics ----------
(define-fun inInt  ((x Int)) Bool (and (<= (- 9223372036854775808) x) (<= x 9223372036854775807)))
(define-fun inU32  ((x Int)) Bool (and (<= 0 x) (<= x 4294967295)))
(define-fun inU64  ((x Int)) Bool (and (<= 0 x) (<= x 18446744073709551615)))
(define-fun inU8   ((x Int)) Bool (and (<= 0 x) (<= x 255)))
(define-fun toU32  ((x Int)) Int (mod x 4294967296))            ; conversion wraps
(define-fun toInt64 ((x Int)) Int (let ((m (mod x 18446744073709551616))) (ite (> m 9223372036854775807) (- m 18446744073709551616) m)))
; Go's / and % truncate toward zero; SMT-LIB div/mod are Euclidean. (b != 0 is a separate obligation.)
(define-fun goquo ((a Int) (b Int)) Int (ite (>= a 0) (ite (> b 0) (div a b) (- (div a (- b)))) (ite (> b 0) (- (div (- a) b)) (div (- a) (- b)))))
(define-fun gorem ((a Int) (b Int)) Int (- a (* b (goquo a b))))

; ---------- queues.PriorityQueue: set of entries, unique Index ----------
(declare-fun Prio (Ref) Int) (declare-fun Idx (Ref) Int)             ; enqItem fields are immutable after creation (frame audit)
(define-fun lexlt ((a Ref) (b Ref)) Bool (or (< (Prio a) (Prio b)) (and (= (Prio a) (Prio b)) (< (Idx a) (Idx b)))))
(define-fun lexle ((a Ref) (b Ref)) Bool (or (< (Prio a) (Prio b)) (and (= (Prio a) (Prio b)) (<= (Idx a) (Idx b)))))
; membership of the heap array: items[0..n) with inverse slot map (so no duplicates). mem is generated per state by the engine as
;   (declare-fun mem_k (Ref) Bool) (assert (forall ((e Ref)) (! (= (mem_k e) (and (<= 0 (select slot e)) (< (select slot e) n) (= (select items (select slot e)) e))) :pattern ((mem_k e)))))
(define-fun slots_ok ((items RefMap) (slot IntMap) (n Int)) Bool
  (and (>= n 0) (forall ((k Int)) (! (=> (and (<= 0 k) (< k n)) (and (not (= (select items k) 0)) (= (select slot (select items k)) k))) :pattern ((select items k))))))
(define-fun isHeap ((items RefMap) (n Int)) Bool
  (forall ((k Int)) (! (=> (and (<= 1 k) (< k n)) (not (lexlt (select items k) (select items (goquo (- k 1) 2))))) :pattern ((select items k)))))


; ===== self-check =====
; -- lexlt is a strict total order on entries with distinct Idx (C04)
(push) (declare-const a Ref) (assert (lexlt a a)) (check-sat) (pop)
(push) (declare-const a Ref) (declare-const b Ref) (declare-const c Ref) (assert (and (lexlt a b) (lexlt b c) (not (lexlt a c)))) (check-sat) (pop)
(push) (declare-const a Ref) (declare-const b Ref) (assert (and (not (= (Idx a) (Idx b))) (not (lexlt a b)) (not (lexlt b a)))) (check-sat) (pop)
(push) (declare-const a Ref) (declare-const b Ref) (assert (and (not (= (Idx a) (Idx b))) (not (lexlt b a)) (not (lexle a b)))) (check-sat) (pop)
; -- PriorityQueue.Dequeue / Enqueue on top of the ASSUMED container/heap contract (Pop returns a Less-least member and removes
;    exactly it; Push adds exactly the new entry). mem/mem2 are the per-state membership predicates the engine generates.
(push)
(declare-const items RefMap) (declare-const slot IntMap) (declare-const n Int) (declare-const ic Int)
(declare-fun mem (Ref) Bool)
(assert (forall ((e Ref)) (! (= (mem e) (and (<= 0 (select slot e)) (< (select slot e) n) (= (select items (select slot e)) e))) :pattern ((mem e)))))
(assert (slots_ok items slot n))
(assert (forall ((e Ref)) (! (=> (mem e) (< (Idx e) ic)) :pattern ((mem e)))))                                   ; RI_PQ: indices below the counter
(assert (forall ((a Ref) (b Ref)) (! (=> (and (mem a) (mem b) (= (Idx a) (Idx b))) (= a b)) :pattern ((mem a) (mem b)))))  ; RI_PQ: indices unique
(declare-fun mem2 (Ref) Bool) (declare-const x Ref)
  (push)                                                                 ; Dequeue
  (assert (> n 0)) (assert (mem x))
  (assert (forall ((e Ref)) (! (=> (mem e) (not (lexlt e x))) :pattern ((mem e)))))
  (assert (forall ((e Ref)) (! (= (mem2 e) (and (mem e) (not (= e x)))) :pattern ((mem2 e)) :pattern ((mem e)))))
  (push) (declare-const e1 Ref) (assert (mem e1)) (assert (not (lexle x e1))) (check-sat) (pop)                 ; returns the lexle-least entry
  (push) (declare-const a Ref) (declare-const b Ref) (assert (and (mem2 a) (mem2 b) (= (Idx a) (Idx b)) (not (= a b)))) (check-sat) (pop)
  (push) (declare-const c Ref) (assert (mem2 c)) (assert (not (< (Idx c) ic))) (check-sat) (pop)
  (pop)
  (push)                                                                 ; Enqueue: fresh entry y, Idx = ic, ic' = ic+1
  (declare-const y Ref) (assert (not (= y 0))) (assert (not (mem y))) (assert (= (Idx y) ic))
  (assert (forall ((e Ref)) (! (= (mem2 e) (or (mem e) (= e y))) :pattern ((mem2 e)) :pattern ((mem e)))))
  (push) (declare-const a Ref) (declare-const b Ref) (assert (and (mem2 a) (mem2 b) (= (Idx a) (Idx b)) (not (= a b)))) (check-sat) (pop)
  (push) (declare-const c Ref) (assert (mem2 c)) (assert (not (< (Idx c) (+ ic 1)))) (check-sat) (pop)
  (push) (declare-const d Ref) (assert (mem d)) (assert (= (Prio d) (Prio y))) (assert (not (lexlt d y))) (check-sat) (pop)   ; ties are FIFO
  (pop)
(pop)
