; DRAFT spec prelude module `60-worker` (design artefact, not framework code; see DESIGN.md §3 C14 and contracts-draft/varmq_worker_binder.contracts)
; EXPECT: sat unsat unsat unsat unsat sat sat unsat sat unsat sat sat sat unsat unsat
; The worker's lifecycle resources as a small state record, RI_worker over it, and the real lifecycle functions as
; hand-transcribed state transformers (what the engine will derive from the SSA + primitive contracts). The self-check shows
; that RI_worker is inductive exactly where the code is right and refuted exactly at the findings F2, F3, F6, F6b
; (the refutations are asked of the ground part RIg only — the engine splits goals per clause, and a quantified negation would come back `unknown`).
(set-logic ALL)
(define-sort IntMap () (Array Int Int))
(define-sort BoolMap () (Array Int Bool))
(define-fun INIT () Int 0) (define-fun RUN () Int 1) (define-fun PAUSED () Int 2) (define-fun STOPPED () Int 3)
; state: st sig err (channel refs, 0 = nil) open (per channel) loops (per channel) ctx cfgctx (0 = none) lst (listeners per ctx)
;        armed (asynchronous Stop calls triggered and not yet run) reapers tick (len(tickers) = unstopped tickers) idle (pool length) expiry (idle expiry configured)
(define-fun RIg ((st Int) (sig Int) (err Int) (open BoolMap) (loops IntMap) (ctx Int) (cfgctx Int) (lst IntMap) (armed Int) (reapers Int) (tick Int) (idle Int) (expiry Bool)) Bool
 (and (<= 0 st) (<= st 3) (= (= ctx 0) (= cfgctx 0)) (>= idle 0) (>= reapers 0) (>= tick 0) (>= armed 0)
  (=> (not (= sig 0)) (select open sig)) (=> (not (= err 0)) (select open err)) (=> (and (not (= sig 0)) (not (= err 0))) (not (= sig err)))
  (= (select loops 0) 0) (= (select lst 0) 0)
  (=> (= st INIT)    (and (not (= sig 0)) (not (= err 0)) (= (select loops sig) 0) (= (select lst ctx) 0) (= reapers 0) (= tick 0) (= idle 0)))
  (=> (or (= st RUN) (= st PAUSED)) (and (not (= sig 0)) (not (= err 0)) (= (select loops sig) 1) (=> (not (= ctx 0)) (= (select lst ctx) 1))
                                         (= reapers (ite expiry 1 0)) (= tick reapers)))
  (=> (= st STOPPED) (and (= sig 0) (= err 0) (= (select lst ctx) 0) (= reapers 0) (= tick 0) (= idle 0)))
  (=> (> armed 0) (= st STOPPED))))                 ; an armed asynchronous Stop is harmless only while the worker is stopped
(define-fun RIq ((sig Int) (loops IntMap) (ctx Int) (lst IntMap)) Bool
 (and (forall ((c Int)) (! (and (>= (select loops c) 0) (=> (not (= c sig)) (= (select loops c) 0))) :pattern ((select loops c))))
      (forall ((x Int)) (! (and (>= (select lst x) 0) (=> (not (= x ctx)) (= (select lst x) 0))) :pattern ((select lst x))))))
(define-fun RI ((st Int) (sig Int) (err Int) (open BoolMap) (loops IntMap) (ctx Int) (cfgctx Int) (lst IntMap) (armed Int) (reapers Int) (tick Int) (idle Int) (expiry Bool)) Bool
 (and (RIg st sig err open loops ctx cfgctx lst armed reapers tick idle expiry) (RIq sig loops ctx lst)))

(declare-const st Int) (declare-const sig Int) (declare-const err Int) (declare-const open BoolMap) (declare-const loops IntMap)
(declare-const ctx Int) (declare-const cfgctx Int) (declare-const lst IntMap) (declare-const armed Int) (declare-const reapers Int) (declare-const tick Int) (declare-const idle Int) (declare-const expiry Bool)
; fresh channel / context references handed out by make(chan) and context.WithCancel
(declare-const nsig Int) (declare-const nerr Int) (declare-const nctx Int)
(assert (and (> nsig 0) (> nerr 0) (> nctx 0) (not (= nsig nerr)) (not (= nsig sig)) (not (= nsig err)) (not (= nerr sig)) (not (= nerr err)) (not (= nctx ctx)) (= (select loops nsig) 0) (= (select loops nerr) 0) (= (select lst nctx) 0)))

; ---- start() from a state s0 with given channels: one dispatcher on sig, reaper iff expiry, listener iff ctx, one idle node, status running
(define-fun loopsAfterStart ((l IntMap) (s Int)) IntMap (store l s (+ (select l s) 1)))
(define-fun lstAfterStart ((m IntMap) (c Int)) IntMap (ite (= c 0) m (store m c (+ (select m c) 1))))

; ===== self-check =====
; -- RI is satisfiable in a running state with context and expiry                                   ; expect sat
(push) (assert (RIg st sig err open loops ctx cfgctx lst armed reapers tick idle expiry)) (assert (and (= st RUN) (not (= ctx 0)) expiry)) (check-sat) (pop)
; -- start() from INIT establishes RI in RUN
(push) (assert (RI st sig err open loops ctx cfgctx lst armed reapers tick idle expiry)) (assert (= st INIT))
(assert (not (RI RUN sig err open (loopsAfterStart loops sig) ctx cfgctx (lstAfterStart lst ctx) armed (+ reapers (ite expiry 1 0)) (+ tick (ite expiry 1 0)) (+ idle 1) expiry)))
(check-sat) (pop)
; -- Pause from RUN, Resume from PAUSED keep RI
(push) (assert (RI st sig err open loops ctx cfgctx lst armed reapers tick idle expiry)) (assert (= st RUN)) (assert (not (RI PAUSED sig err open loops ctx cfgctx lst armed reapers tick idle expiry))) (check-sat) (pop)
(push) (assert (RI st sig err open loops ctx cfgctx lst armed reapers tick idle expiry)) (assert (= st PAUSED)) (assert (not (RI RUN sig err open loops ctx cfgctx lst armed reapers tick idle expiry))) (check-sat) (pop)
; -- Stop() from RUN/PAUSED without idle expiry: stopTickers; closeChannels (dispatcher returns); remove idle nodes; status stopped; cancel (arms the listener, which then leaves)
(define-fun openAfterClose () BoolMap (store (store open sig false) err false))
(define-fun lstAfterCancel () IntMap (store lst ctx 0))
(define-fun armedAfterCancel () Int (+ armed (select lst ctx)))
(push) (assert (RI st sig err open loops ctx cfgctx lst armed reapers tick idle expiry)) (assert (or (= st RUN) (= st PAUSED))) (assert (not expiry))
(assert (not (RI STOPPED 0 0 openAfterClose (store loops sig 0) ctx cfgctx lstAfterCancel armedAfterCancel reapers 0 0 expiry)))
(check-sat) (pop)
; -- F6: the same with idle expiry — the reaper never returns (Ticker.Stop does not close C)     ; expect sat
(push) (assert (RIg st sig err open loops ctx cfgctx lst armed reapers tick idle expiry)) (assert (or (= st RUN) (= st PAUSED))) (assert expiry)
(assert (not (RIg STOPPED 0 0 openAfterClose (store loops sig 0) ctx cfgctx lstAfterCancel armedAfterCancel reapers 0 0 expiry)))
(check-sat) (pop)
; -- F2a: a binder calls start() on a PAUSED worker: second dispatcher, extra node, status running ; expect sat
(push) (assert (RIg st sig err open loops ctx cfgctx lst armed reapers tick idle expiry)) (assert (= st PAUSED))
(assert (not (RIg RUN sig err open (loopsAfterStart loops sig) ctx cfgctx (lstAfterStart lst ctx) armed (+ reapers (ite expiry 1 0)) (+ tick (ite expiry 1 0)) (+ idle 1) expiry)))
(check-sat) (pop)
; -- ... and the documented behaviour (status and resources unchanged) is of course fine
(push) (assert (RI st sig err open loops ctx cfgctx lst armed reapers tick idle expiry)) (assert (= st PAUSED)) (assert (not (RI st sig err open loops ctx cfgctx lst armed reapers tick idle expiry))) (check-sat) (pop)
; -- F2b: a binder calls start() on a STOPPED worker: dispatcher parked on the nil channel, status running ; expect sat
(push) (assert (RIg st sig err open loops ctx cfgctx lst armed reapers tick idle expiry)) (assert (= st STOPPED))
(assert (not (RIg RUN sig err open (loopsAfterStart loops sig) ctx cfgctx (lstAfterStart lst ctx) armed (+ reapers (ite expiry 1 0)) (+ tick (ite expiry 1 0)) (+ idle 1) expiry)))
(check-sat) (pop)
; -- Restart() from STOPPED, no context, nothing armed: new channels, status initiated, start  => RI in RUN
(push) (assert (RI st sig err open loops ctx cfgctx lst armed reapers tick idle expiry)) (assert (and (= st STOPPED) (= ctx 0) (= armed 0)))
(define-fun open2 () BoolMap (store (store open nsig true) nerr true))
(assert (not (RI RUN nsig nerr open2 (loopsAfterStart loops nsig) 0 0 lst armed (+ reapers (ite expiry 1 0)) (+ tick (ite expiry 1 0)) (+ idle 1) expiry)))
(check-sat) (pop)
; -- F3b: Restart() right after Stop() with a context: the listener armed by Stop's cancel has not run yet ; expect sat
(push) (assert (RIg st sig err open loops ctx cfgctx lst armed reapers tick idle expiry)) (assert (and (= st STOPPED) (not (= ctx 0)) (> armed 0)))
(define-fun open2 () BoolMap (store (store open nsig true) nerr true))
(assert (not (RIg RUN nsig nerr open2 (loopsAfterStart loops nsig) nctx cfgctx (lstAfterStart (store lst ctx 0) nctx) (+ armed (select lst ctx)) (+ reapers (ite expiry 1 0)) (+ tick (ite expiry 1 0)) (+ idle 1) expiry)))
(check-sat) (pop)
; -- F3: Restart() from RUN with a context (no expiry): PauseAndWait; remove idle nodes; closeChannels; cancel() arms the live listener; new ctx; start ; expect sat
(push) (assert (RIg st sig err open loops ctx cfgctx lst armed reapers tick idle expiry)) (assert (and (= st RUN) (not (= ctx 0)) (not expiry)))
(define-fun open3 () BoolMap (store (store openAfterClose nsig true) nerr true))
(assert (not (RIg RUN nsig nerr open3 (loopsAfterStart (store loops sig 0) nsig) nctx cfgctx (lstAfterStart (store lst ctx 0) nctx) (+ armed (select lst ctx)) reapers tick 1 expiry)))
(check-sat) (pop)
; -- F6b: Restart() from RUN without context but with expiry: stopTickers is never called        ; expect sat
(push) (assert (RIg st sig err open loops ctx cfgctx lst armed reapers tick idle expiry)) (assert (and (= st RUN) (= ctx 0) expiry))
(define-fun open3 () BoolMap (store (store openAfterClose nsig true) nerr true))
(assert (not (RIg RUN nsig nerr open3 (loopsAfterStart (store loops sig 0) nsig) 0 0 lst armed (+ reapers 1) (+ tick 1) 1 expiry)))
(check-sat) (pop)
; -- Restart() from RUN without context and without expiry is fine
(push) (assert (RI st sig err open loops ctx cfgctx lst armed reapers tick idle expiry)) (assert (and (= st RUN) (= ctx 0) (not expiry)))
(define-fun open3 () BoolMap (store (store openAfterClose nsig true) nerr true))
(assert (not (RI RUN nsig nerr open3 (loopsAfterStart (store loops sig 0) nsig) 0 0 lst armed reapers tick 1 expiry)))
(check-sat) (pop)
; -- Restart() from INIT (never started) without context: closeChannels on the constructor's channels, new ones, start
(push) (assert (RI st sig err open loops ctx cfgctx lst armed reapers tick idle expiry)) (assert (and (= st INIT) (= ctx 0)))
(define-fun open3 () BoolMap (store (store openAfterClose nsig true) nerr true))
(assert (not (RI RUN nsig nerr open3 (loopsAfterStart (store loops sig 0) nsig) 0 0 lst armed (+ reapers (ite expiry 1 0)) (+ tick (ite expiry 1 0)) 1 expiry)))
(check-sat) (pop)
