; DRAFT spec prelude module `40-manager` (design artefact, not framework code; see DESIGN.md §2.2 and Appendix D)
; EXPECT: unsat unsat unsat unsat unsat
(set-logic ALL)
; ---------- sorts ----------
(define-sort Ref () Int)                       ; 0 = nil
(define-sort IntMap () (Array Int Int))
(define-sort RefMap () (Array Int Int))
(define-sort BoolMap () (Array Int Bool))
(declare-sort T 0)                             ; a type parameter
(define-sort TArr () (Array Int T))            ; contents of a []T backing array
(define-sort DataMap () (Array Int TArr))      ; Chunk.Data per chunk reference

; ---------- Go integer semantics ----------
(define-fun inInt  ((x Int)) Bool (and (<= (- 9223372036854775808) x) (<= x 9223372036854775807)))
(define-fun inU32  ((x Int)) Bool (and (<= 0 x) (<= x 4294967295)))
(define-fun inU64  ((x Int)) Bool (and (<= 0 x) (<= x 18446744073709551615)))
(define-fun inU8   ((x Int)) Bool (and (<= 0 x) (<= x 255)))
(define-fun toU32  ((x Int)) Int (mod x 4294967296))            ; conversion wraps
(define-fun toInt64 ((x Int)) Int (let ((m (mod x 18446744073709551616))) (ite (> m 9223372036854775807) (- m 18446744073709551616) m)))
; Go's / and % truncate toward zero; SMT-LIB div/mod are Euclidean. (b != 0 is a separate obligation.)
(define-fun goquo ((a Int) (b Int)) Int (ite (>= a 0) (ite (> b 0) (div a b) (- (div a (- b)))) (ite (> b 0) (- (div (- a) b)) (div (- a) (- b)))))
(define-fun gorem ((a Int) (b Int)) Int (- a (* b (goquo a b))))

; ---------- helpers.Manager ----------
(declare-fun lenOf (Ref) Int)                                          ; Sizer.Len() — pure, stable during one call, >= 0 (adapter contract)
(define-fun RI_Manager ((n Int) (rr Int)) Bool (and (>= n 0) (<= 0 rr) (=> (> n 0) (< rr n))))
(define-fun inCyc ((n Int) (s Int) (r Int) (i Int)) Bool (and (<= 0 i) (< i n) (ite (<= s r) (and (<= s i) (< i r)) (or (>= i s) (< i r)))))
(declare-fun sumLen (RefMap Int) Int)                                  ; sumLen(items,k) = Σ_{i<k} lenOf(items[i])
(assert (forall ((items RefMap)) (! (= (sumLen items 0) 0) :pattern ((sumLen items 0)))))
(assert (forall ((items RefMap) (k Int)) (! (=> (> k 0) (= (sumLen items k) (+ (sumLen items (- k 1)) (lenOf (select items (- k 1)))))) :pattern ((sumLen items k)))))


; ===== self-check =====
; -- round robin: closed-form invariant step (see DESIGN C15)
(push)
(declare-const items RefMap) (declare-const n Int) (declare-const start Int) (declare-const rr Int)
(assert (and (> n 0) (<= 0 start) (< start n) (<= 0 rr) (< rr n)))
(assert (forall ((i Int)) (! (=> (and (not (= rr start)) (inCyc n start rr i)) (<= (lenOf (select items i)) 0)) :pattern ((select items i)))))
(assert (<= (lenOf (select items rr)) 0))
(define-fun rr2 () Int (gorem (+ rr 1) n))
(declare-const k Int)
(assert (not (= rr2 start)))
(assert (not (and (<= 0 rr2) (< rr2 n) (=> (inCyc n start rr2 k) (<= (lenOf (select items k)) 0)))))
(check-sat) (pop)
; -- Manager.Len loop step: total = sumLen(items, i), total >= 0 carried (lenOf >= 0 is the adapter contract)
(push) (declare-const items RefMap) (declare-const n Int) (declare-const i Int) (declare-const total Int)
(assert (and (<= 0 i) (< i n) (= total (sumLen items i)) (>= total 0) (>= (lenOf (select items i)) 0)))
(assert (not (and (= (+ total (lenOf (select items i))) (sumLen items (+ i 1))) (>= (+ total (lenOf (select items i))) 0))))
(check-sat) (pop)
; -- GetMinLenItem loop step: (minLen = -1 and no positive length among items[0..i)) or (minItem = items[j], j<i, positive, least positive)
(push) (declare-const items RefMap) (declare-const n Int) (declare-const i Int) (declare-const minLen Int) (declare-const minItem Ref) (declare-const j Int)
(define-fun INV ((i Int) (minLen Int) (minItem Ref) (j Int)) Bool
  (and (forall ((k Int)) (! (=> (and (<= 0 k) (< k i) (> (lenOf (select items k)) 0)) (and (not (= minLen (- 1))) (<= minLen (lenOf (select items k))))) :pattern ((select items k))))
       (=> (not (= minLen (- 1))) (and (<= 0 j) (< j i) (= minItem (select items j)) (= minLen (lenOf minItem)) (> minLen 0)))))
(assert (and (<= 0 i) (< i n) (INV i minLen minItem j)))
(define-fun l () Int (lenOf (select items i)))
(define-fun upd () Bool (and (> l 0) (or (= minLen (- 1)) (< l minLen))))
(assert (not (INV (+ i 1) (ite upd l minLen) (ite upd (select items i) minItem) (ite upd i j))))
(check-sat) (pop)
; -- slices.MaxFunc loop step with cmp(a,b) = lenOf(a) - lenOf(b): m = x[j], j < i, first maximum of x[0..i)
(push) (declare-const x RefMap) (declare-const n Int) (declare-const i Int) (declare-const m Ref) (declare-const j Int)
(define-fun INVM ((i Int) (m Ref) (j Int)) Bool
  (and (<= 0 j) (< j i) (= m (select x j))
       (forall ((k Int)) (! (=> (and (<= 0 k) (< k i)) (<= (lenOf (select x k)) (lenOf m))) :pattern ((select x k))))))
(assert (and (<= 1 i) (< i n) (INVM i m j)))
(define-fun gt () Bool (> (- (lenOf (select x i)) (lenOf m)) 0))
(assert (not (INVM (+ i 1) (ite gt (select x i) m) (ite gt i j))))
(check-sat) (pop)
; -- UnregisterItem keeps RI_Manager: remove index i (swap with last, truncate), cursor reset when rr >= i
(push) (declare-const n Int) (declare-const rr Int) (declare-const i Int)
(assert (and (RI_Manager n rr) (<= 0 i) (< i n)))
(assert (not (RI_Manager (- n 1) (ite (>= rr i) 0 rr))))
(check-sat) (pop)
