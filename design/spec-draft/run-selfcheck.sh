#!/bin/sh
# Runs every draft module through the three installed solvers and compares with the EXPECT line
# (a solver may answer unknown/timeout; what must never happen is sat<->unsat disagreement with EXPECT).
cd "$(dirname "$0")"
for f in [0-9]*.smt2; do
  exp=$(sed -n 's/^; EXPECT: //p' "$f")
  for s in "z3 -T:20" "z3-new -T:20" "cvc5 --incremental --tlimit-per=20000"; do
    got=$($s "$f" 2>&1 | grep -E '^(sat|unsat|unknown|timeout)' | tr '\n' ' ')
    printf '%-12s %-42s\n   expect: %s\n   got:    %s\n' "$f" "$s" "$exp" "$got"
  done
done
