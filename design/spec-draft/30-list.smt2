; DRAFT spec prelude module `30-list` (design artefact, not framework code; see DESIGN.md §2.2 and Appendix D)
; EXPECT: sat unsat unsat unsat unsat
(set-logic ALL)
; ---------- sorts ----------
(define-sort Ref () Int)                       ; 0 = nil
(define-sort IntMap () (Array Int Int))
(define-sort RefMap () (Array Int Int))
(define-sort BoolMap () (Array Int Bool))
(declare-sort T 0)                             ; a type parameter
(define-sort TArr () (Array Int T))            ; contents of a []T backing array
(define-sort DataMap () (Array Int TArr))      ; Chunk.Data per chunk reference

; ---------- linkedlist.List: ring with ghost position sequence ----------
(define-fun RI_List ((nxt RefMap) (prv RefMap) (at RefMap) (pos IntMap) (inL BoolMap) (root Ref) (len Int)) Bool
 (and (not (= root 0)) (>= len 0) (= (select at 0) root) (select inL root) (= (select pos root) 0)
  (forall ((i Int)) (! (=> (and (<= 0 i) (<= i len))
      (and (select inL (select at i)) (not (= (select at i) 0)) (= (select pos (select at i)) i)
           (= (select nxt (select at i)) (select at (ite (= i len) 0 (+ i 1))))
           (= (select prv (select at i)) (select at (ite (= i 0) len (- i 1))))))
      :pattern ((select at i))))
  (forall ((n Ref)) (! (=> (select inL n) (and (<= 0 (select pos n)) (<= (select pos n) len) (= (select at (select pos n)) n)))
      :pattern ((select inL n))))))
; a node outside the list has both links nil (the reaper relies on the converse):
(define-fun detached ((nxt RefMap) (prv RefMap) (n Ref)) Bool (and (= (select nxt n) 0) (= (select prv n) 0)))


; ===== self-check =====
; -- list: RI_List satisfiable (empty ring)                                 ; expect sat
(push) (declare-const nxt RefMap) (declare-const prv RefMap) (declare-const at RefMap) (declare-const pos IntMap) (declare-const inL BoolMap)
(assert (RI_List nxt prv at pos inL 5 0)) (check-sat) (pop)
; -- list: len > 0  =>  root.prev != root  (PopBack never hands out the sentinel)
(push) (declare-const nxt RefMap) (declare-const prv RefMap) (declare-const at RefMap) (declare-const pos IntMap) (declare-const inL BoolMap) (declare-const root Ref) (declare-const len Int)
(assert (RI_List nxt prv at pos inL root len)) (assert (> len 0)) (assert (= (select prv root) root)) (check-sat) (pop)
; -- PushNode(n): n != nil, n not in the list  => appended at position len+1
(push) (declare-const nxt RefMap) (declare-const prv RefMap) (declare-const at RefMap) (declare-const pos IntMap) (declare-const inL BoolMap) (declare-const root Ref) (declare-const len Int) (declare-const n Ref)
(assert (RI_List nxt prv at pos inL root len)) (assert (and (not (= n 0)) (not (select inL n))))
(define-fun last () Ref (select prv root))
; n.next=&root; n.prev=root.prev; root.prev.next=n; root.prev=n
(assert (not (RI_List (store (store nxt n root) last n) (store (store prv n last) root n) (store at (+ len 1) n) (store pos n (+ len 1)) (store inL n true) root (+ len 1))))
(check-sat) (pop)
; -- PopBack with len > 0: last := root.prev is a real node; unlink it
(push) (declare-const nxt RefMap) (declare-const prv RefMap) (declare-const at RefMap) (declare-const pos IntMap) (declare-const inL BoolMap) (declare-const root Ref) (declare-const len Int)
(assert (RI_List nxt prv at pos inL root len)) (assert (> len 0))
(define-fun last () Ref (select prv root))
(define-fun nxt1 () RefMap (store nxt (select prv last) (select nxt last)))        ; last.prev.next = last.next
(define-fun prv1 () RefMap (store prv (select nxt last) (select prv last)))        ; last.next.prev = last.prev
(assert (not (and (not (= last root)) (= last (select at len))
  (RI_List (store nxt1 last 0) (store prv1 last 0) at pos (store inL last false) root (- len 1)))))
(check-sat) (pop)
; -- Remove(m) at an arbitrary position p = pos(m): positions above p shift down by one
(push) (declare-const nxt RefMap) (declare-const prv RefMap) (declare-const at RefMap) (declare-const pos IntMap) (declare-const inL BoolMap) (declare-const root Ref) (declare-const len Int) (declare-const m Ref)
(declare-const at3 RefMap) (declare-const pos3 IntMap)
(assert (RI_List nxt prv at pos inL root len)) (assert (and (select inL m) (not (= m root))))
(define-fun p () Int (select pos m))
(assert (forall ((i Int)) (! (= (select at3 i) (ite (< i p) (select at i) (select at (+ i 1)))) :pattern ((select at3 i)))))
(assert (forall ((x Ref)) (! (= (select pos3 x) (ite (> (select pos x) p) (- (select pos x) 1) (select pos x))) :pattern ((select pos3 x)))))
(define-fun nxt1 () RefMap (store nxt (select prv m) (select nxt m)))
(define-fun prv1 () RefMap (store prv (select nxt m) (select prv m)))
(assert (not (and (not (= (select nxt m) 0)) (not (= (select prv m) 0))                       ; so the "not properly connected" test is false
  (RI_List (store nxt1 m 0) (store prv1 m 0) at3 pos3 (store inL m false) root (- len 1)))))
(check-sat) (pop)
