; DRAFT spec prelude module `25-heap` (design artefact, not framework code; see DESIGN.md §2.2 and Appendix D)
; EXPECT: sat unsat unsat unsat unsat unsat unsat sat unsat unsat unsat unsat unsat unsat unsat
; container/heap (GOROOT go1.24.0) up / down / Push / Pop over an abstract element array `a` exposed by the heap.Interface contract:
;   Len() = n;  Less(i,j) <=> lt(a[i], a[j]);  Swap(i,j) swaps a[i], a[j];  Push(x) appends;  Pop() removes and returns a[n-1].
; lt is any strict weak order (irreflexive, transitive, negatively transitive) — heapQueue.Less = lexlt is one (module 20-pq).
(set-logic ALL)
(declare-sort E 0)
(declare-fun lt (E E) Bool)
(assert (forall ((x E)) (! (not (lt x x)) :pattern ((lt x x)))))
(assert (forall ((x E) (y E) (z E)) (! (=> (and (lt x y) (lt y z)) (lt x z)) :pattern ((lt x y) (lt y z)))))
(assert (forall ((x E) (y E) (z E)) (! (=> (and (not (lt x y)) (not (lt y z))) (not (lt x z))) :pattern ((lt x y) (lt y z)))))
(declare-fun P (Int) Int)                                                     ; parent index; for k >= 1 Go's (k-1)/2 equals div
(assert (forall ((k Int)) (! (= (P k) (div (- k 1) 2)) :pattern ((P k)))))
(define-sort EArr () (Array Int E))
(define-fun Heap ((a EArr) (n Int)) Bool
  (forall ((k Int)) (! (=> (and (<= 1 k) (< k n)) (not (lt (select a k) (select a (P k))))) :pattern ((select a k)))))
; up(h, j): heap everywhere except possibly at j; children of j respect j's parent
(define-fun InvUp ((a EArr) (n Int) (j Int)) Bool
 (and (<= 0 j) (< j n)
  (forall ((k Int)) (! (=> (and (<= 1 k) (< k n) (not (= k j))) (not (lt (select a k) (select a (P k))))) :pattern ((select a k))))
  (forall ((k Int)) (! (=> (and (<= 1 k) (< k n) (= (P k) j) (>= j 1)) (not (lt (select a k) (select a (P j))))) :pattern ((select a k))))))
; down(h, i0, m): heap everywhere except between i and its children; children of i respect i's parent
(define-fun InvDown ((a EArr) (m Int) (i Int)) Bool
 (and (<= 0 i)
  (forall ((k Int)) (! (=> (and (<= 1 k) (< k m) (not (= (P k) i))) (not (lt (select a k) (select a (P k))))) :pattern ((select a k))))
  (forall ((k Int)) (! (=> (and (<= 1 k) (< k m) (= (P k) i) (>= i 1)) (not (lt (select a k) (select a (P i))))) :pattern ((select a k))))))

; ===== self-check =====
; -- up: non-vacuity                                                          ; expect sat
(push) (declare-const a EArr) (declare-const n Int) (declare-const j Int) (assert (InvUp a n j)) (assert (and (>= j 3) (lt (select a j) (select a (P j))))) (check-sat) (pop)
; -- up: the two exits give Heap; the step keeps InvUp with j' = parent, in bounds and decreasing
(push) (declare-const a EArr) (declare-const n Int) (declare-const j Int) (assert (InvUp a n j))
  (push) (assert (= j 0)) (assert (not (Heap a n))) (check-sat) (pop)
  (push) (assert (>= j 1)) (assert (not (lt (select a j) (select a (P j))))) (assert (not (Heap a n))) (check-sat) (pop)
  (assert (>= j 1)) (define-fun i () Int (P j)) (assert (lt (select a j) (select a i)))
  (define-fun a2 () EArr (store (store a i (select a j)) j (select a i)))
  (push) (assert (not (and (<= 0 i) (< i n) (< i j)))) (check-sat) (pop)
  (push) (declare-const k Int) (assert (and (<= 1 k) (< k n) (not (= k i)))) (assert (lt (select a2 k) (select a2 (P k)))) (check-sat) (pop)
  (push) (declare-const k Int) (assert (and (<= 1 k) (< k n) (= (P k) i) (>= i 1))) (assert (lt (select a2 k) (select a2 (P i)))) (check-sat) (pop)
(pop)
; -- heap.Push = h.Push(x); up(h, n): appending at index n establishes InvUp(·, n+1, n)
(push) (declare-const a EArr) (declare-const n Int) (declare-const x E) (assert (>= n 0)) (assert (Heap a n))
(assert (not (InvUp (store a n x) (+ n 1) n))) (check-sat) (pop)
; -- down: non-vacuity                                                        ; expect sat
(push) (declare-const a EArr) (declare-const m Int) (declare-const i Int) (assert (InvDown a m i)) (assert (and (< (+ (* 2 i) 2) m) (lt (select a (+ (* 2 i) 1)) (select a i)))) (check-sat) (pop)
; -- down: both exits give Heap; the step keeps InvDown with i' = the smaller child
(push) (declare-const a EArr) (declare-const m Int) (declare-const i Int) (assert (InvDown a m i)) (assert (>= m 0))
  (define-fun j1 () Int (+ (* 2 i) 1)) (define-fun j2 () Int (+ j1 1))
  (push) (assert (>= j1 m)) (assert (not (Heap a m))) (check-sat) (pop)
  (declare-const j Int) (assert (< j1 m))
  (assert (= j (ite (and (< j2 m) (lt (select a j2) (select a j1))) j2 j1)))
  (push) (assert (not (lt (select a j) (select a i)))) (assert (not (Heap a m))) (check-sat) (pop)
  (assert (lt (select a j) (select a i)))
  (define-fun a2 () EArr (store (store a i (select a j)) j (select a i)))
  (push) (assert (not (and (< i j) (< j m) (<= 0 j)))) (check-sat) (pop)
  (push) (declare-const k Int) (assert (and (<= 1 k) (< k m) (not (= (P k) j)))) (assert (lt (select a2 k) (select a2 (P k)))) (check-sat) (pop)
  (push) (declare-const k Int) (assert (and (<= 1 k) (< k m) (= (P k) j) (>= j 1))) (assert (lt (select a2 k) (select a2 (P j)))) (check-sat) (pop)
(pop)
; -- heap.Pop = Swap(0, n-1); down(h, 0, n-1); h.Pop(): after the swap InvDown(·, n-1, 0) holds
(push) (declare-const a EArr) (declare-const n Int) (assert (>= n 1)) (assert (Heap a n))
(define-fun m () Int (- n 1))
(assert (not (InvDown (store (store a 0 (select a m)) m (select a 0)) m 0))) (check-sat) (pop)
; -- lemma RootMin (needs induction on k; this is the step: the hypothesis for all smaller k gives the claim for k)
(push) (declare-const a EArr) (declare-const n Int) (declare-const k Int) (assert (Heap a n)) (assert (and (<= 0 k) (< k n)))
(assert (forall ((q Int)) (! (=> (and (<= 0 q) (< q k)) (not (lt (select a q) (select a 0)))) :pattern ((select a q)))))
(assert (lt (select a k) (select a 0))) (check-sat) (pop)
