; DRAFT spec prelude module `00-base` (design artefact, not framework code; see DESIGN.md §2.2 and Appendix D)
; EXPECT: unsat unsat unsat sat sat unsat unsat
(set-logic ALL)
; ---------- sorts ----------
(define-sort Ref () Int)                       ; 0 = nil
(define-sort IntMap () (Array Int Int))
(define-sort RefMap () (Array Int Int))
(define-sort BoolMap () (Array Int Bool))
(declare-sort T 0)                             ; a type parameter
(define-sort TArr () (Array Int T))            ; contents of a []T backing array
(define-sort DataMap () (Array Int TArr))      ; Chunk.Data per chunk reference

; ---------- Go integer semantics ----------
(define-fun inInt  ((x Int)) Bool (and (<= (- 9223372036854775808) x) (<= x 9223372036854775807)))
(define-fun inU32  ((x Int)) Bool (and (<= 0 x) (<= x 4294967295)))
(define-fun inU64  ((x Int)) Bool (and (<= 0 x) (<= x 18446744073709551615)))
(define-fun inU8   ((x Int)) Bool (and (<= 0 x) (<= x 255)))
(define-fun toU32  ((x Int)) Int (mod x 4294967296))            ; conversion wraps
(define-fun toInt64 ((x Int)) Int (let ((m (mod x 18446744073709551616))) (ite (> m 9223372036854775807) (- m 18446744073709551616) m)))
; Go's / and % truncate toward zero; SMT-LIB div/mod are Euclidean. (b != 0 is a separate obligation.)
(define-fun goquo ((a Int) (b Int)) Int (ite (>= a 0) (ite (> b 0) (div a b) (- (div a (- b)))) (ite (> b 0) (- (div (- a) b)) (div (- a) (- b)))))
(define-fun gorem ((a Int) (b Int)) Int (- a (* b (goquo a b))))

; ---------- job status (job.go) ----------
(define-fun ST_created () Int 0) (define-fun ST_queued () Int 1) (define-fun ST_processing () Int 2)
(define-fun ST_finished () Int 3) (define-fun ST_closed () Int 4)
(define-fun status_fwd ((old Int) (new Int)) Bool (<= old new))      ; two-state invariant of C16
(declare-sort Str 0)
(declare-const S_Created Str) (declare-const S_Queued Str) (declare-const S_Processing Str) (declare-const S_Finished Str) (declare-const S_Closed Str) (declare-const S_Unknown Str)
(assert (distinct S_Created S_Queued S_Processing S_Finished S_Closed S_Unknown))
(define-fun statusString ((s Int)) Str (ite (= s 0) S_Created (ite (= s 1) S_Queued (ite (= s 2) S_Processing (ite (= s 3) S_Finished (ite (= s 4) S_Closed S_Unknown))))))
; statusOf: -1 = "invalid status" error
(define-fun statusOf ((x Str)) Int (ite (= x S_Created) 0 (ite (= x S_Queued) 1 (ite (= x S_Processing) 2 (ite (= x S_Finished) 3 (ite (= x S_Closed) 4 (- 1)))))))

; ---------- worker lifecycle (worker.go) ----------
(define-fun W_initiated () Int 0) (define-fun W_running () Int 1) (define-fun W_paused () Int 2) (define-fun W_stopped () Int 3)
; the documented machine, as successor-state functions (C14). err codes: 0 nil, 1 ErrNotRunningWorker, 2 ErrRunningWorker
(define-fun next_bind   ((s Int)) Int (ite (= s W_initiated) W_running s))
(define-fun next_pause  ((s Int)) Int (ite (= s W_running) W_paused s))
(define-fun err_pause   ((s Int)) Int (ite (= s W_initiated) 1 0))
(define-fun next_resume ((s Int)) Int (ite (or (= s W_paused) (= s W_initiated)) W_running s))
(define-fun err_resume  ((s Int)) Int (ite (= s W_stopped) 1 (ite (= s W_running) 2 0)))
(define-fun next_stop   ((s Int)) Int (ite (or (= s W_running) (= s W_paused)) W_stopped s))
(define-fun err_stop    ((s Int)) Int (ite (= s W_initiated) 1 0))
(define-fun next_restart ((s Int)) Int W_running)
; wait predicate of WaitUntilFinished (C06): true = keep waiting
(define-fun waitcond ((s Int) (pending Int) (inflight Int)) Bool
  (ite (= s W_running) (or (> pending 0) (> inflight 0)) (ite (or (= s W_paused) (= s W_stopped)) (> inflight 0) false)))
; dispatcher guard (C02/C03/C09)
(define-fun dispatch_enabled ((s Int) (inflight Int) (limit Int) (pending Int)) Bool (and (= s W_running) (< inflight limit) (> pending 0)))
; pool sizing (C18)
(define-fun minIdle ((c Int) (ratio Int)) Int (let ((v (div (* c ratio) 100))) (ite (>= v 1) v 1)))


; ===== self-check =====
; -- status round trip (C12) and monotone order
(push) (declare-const s Int) (assert (and (<= 0 s) (<= s 4))) (assert (not (= (statusOf (statusString s)) s))) (check-sat) (pop)
(push) (declare-const x Str) (assert (not (or (= (statusOf x) (- 1)) (= (statusString (statusOf x)) x)))) (check-sat) (pop)
; -- Go division: (j-1)/2 at j=0 is 0 in Go, -1 with SMT div
(push) (assert (not (and (= (goquo (- 1) 2) 0) (= (div (- 1) 2) (- 1)) (= (gorem (- 7) 2) (- 1)) (= (goquo 7 (- 2)) (- 3))))) (check-sat) (pop)
; -- F7: withSafeConcurrency(n) = toU32(n) for n >= 1 is NOT always >= 1   ; expect sat
(push) (declare-const n Int) (assert (and (inInt n) (>= n 1) (not (>= (toU32 n) 1)))) (check-sat) (pop)
; -- F8: uint32 product overflow in numMinIdleWorkers                      ; expect sat
(push) (declare-const c Int) (declare-const p Int) (assert (and (inU32 c) (>= c 1) (<= 1 p) (<= p 100) (not (inU32 (* c p))))) (check-sat) (pop)
; -- documented machine sanity: Restart/Resume/Bind land in running only as documented
(push) (declare-const s Int) (assert (and (<= 0 s) (<= s 3))) (assert (not (=> (not (= s W_initiated)) (= (next_bind s) s)))) (check-sat) (pop)
(push) (declare-const s Int) (assert (and (<= 0 s) (<= s 3) (= (err_resume s) 0) (not (= (next_resume s) W_running)))) (check-sat) (pop)
