; DRAFT spec prelude module `50-job` (design artefact, not framework code; see DESIGN.md §3 C05/C08/C10/C16 and contracts-draft/varmq_config_metrics_job.contracts)
; EXPECT: sat unsat unsat unsat unsat unsat sat unsat unsat sat unsat sat
; Single jobs (status, WaitGroup counter, response stream) and batches (shared counter + stream) as state records; the Close bodies as
; hand-transcribed transformers. Shows RI_job / RI_batch are inductive under the real Close code in SEQ mode, that the second Close is
; rejected, that the stream is closed exactly once, and where F4 (empty batch) and G5/G2 (interference) break them.
(set-logic ALL)
(define-fun CREATED () Int 0) (define-fun QUEUED () Int 1) (define-fun PROCESSING () Int 2) (define-fun FINISHED () Int 3) (define-fun CLOSED () Int 4)
; ---- single job with a response stream (errorJob / resultJob; a plain job has no stream: sopen irrelevant)
(define-fun RI_job ((status Int) (wg Int) (sopen Bool) (sends Int) (slen Int)) Bool
 (and (<= 0 status) (<= status 4) (<= 0 wg) (<= wg 1) (=> (= wg 0) (= status CLOSED))
      (=> (not (= status CLOSED)) sopen)                                   ; the stream is closed only by Close
      (<= 0 sends) (<= sends 1) (<= 0 slen) (<= slen sends) (<= slen 1)    ; capacity 1, at most one send
      (=> (= sends 1) (>= status PROCESSING))))
(define-fun closeable ((status Int)) Bool (and (not (= status PROCESSING)) (not (= status CLOSED))))
; ---- batch: n items, shared counter cnt (= WaitGroup counter), shared stream (open?, number of sends so far), ghost done = items already closed
(define-fun RI_batch ((n Int) (cnt Int) (sopen Bool) (sends Int)) Bool
 (and (>= n 0) (<= 0 cnt) (<= cnt n) (<= 0 sends) (<= sends (- n cnt))     ; an item sends at most once, before its Close; capacity n is never exceeded
      (=> (> n 0) (= sopen (> cnt 0)))))

; ===== self-check =====
; -- RI_job satisfiable in the processing state with the outcome already sent                        ; expect sat
(push) (declare-const wg Int) (declare-const so Bool) (declare-const sl Int) (assert (RI_job PROCESSING wg so 1 sl)) (check-sat) (pop)
; -- constructor: status created, wg 1, stream open and empty
(push) (assert (not (RI_job CREATED 1 true 0 0))) (check-sat) (pop)
; -- job.Close / errorJob.Close / resultJob.Close, success path (closeable, ack ok): status := closed; wg.Done (needs wg >= 1); stream closed (needs it open)
(push) (declare-const st Int) (declare-const wg Int) (declare-const so Bool) (declare-const sn Int) (declare-const sl Int)
(assert (RI_job st wg so sn sl)) (assert (closeable st))
(assert (not (and (>= wg 1) so (RI_job CLOSED (- wg 1) false sn sl)))) (check-sat) (pop)
; -- second Close is rejected: after a successful Close the job is not closeable, so neither Done nor close(stream) can run twice (SEQ)
(push) (assert (closeable CLOSED)) (check-sat) (pop)
; -- sendResult / sendError inside the worker function: status processing, nothing sent yet => stream open and has room (cap 1)
(push) (declare-const wg Int) (declare-const so Bool) (declare-const sn Int) (declare-const sl Int)
(assert (RI_job PROCESSING wg so sn sl)) (assert (= sn 0))
(assert (not (and so (< sl 1) (RI_job PROCESSING wg so 1 (+ sl 1))))) (check-sat) (pop)
; -- pool goroutine body: processing -> finished (after the worker function) keeps RI
(push) (declare-const wg Int) (declare-const so Bool) (declare-const sn Int) (declare-const sl Int)
(assert (RI_job PROCESSING wg so sn sl)) (assert (not (RI_job FINISHED wg so sn sl))) (check-sat) (pop)
; -- G2 (interference): Close passed its check at status queued, the dispatcher then stored processing and the job ran to finished;
;    the pool goroutine's Close then finds status finished with wg already 0  -> wg.Done on a zero counter                ; expect sat
(push) (declare-const wg Int) (assert (= wg 0)) (assert (closeable FINISHED)) (assert (not (>= wg 1))) (check-sat) (pop)
; -- batch constructor (n > 0)
(push) (declare-const n Int) (assert (> n 0)) (assert (not (RI_batch n n true 0))) (check-sat) (pop)
; -- group Close (result/error kinds), SEQ: cnt > 0 (this item has not been closed): cnt-1; stream closed iff the new count is 0; it was open, so no double close
(push) (declare-const n Int) (declare-const c Int) (declare-const so Bool) (declare-const sn Int)
(assert (RI_batch n c so sn)) (assert (> n 0)) (assert (> c 0))
(assert (not (and so (RI_batch n (- c 1) (ite (= (- c 1) 0) false so) sn)))) (check-sat) (pop)
; -- F4: empty batch — constructor leaves the stream open and no item will ever close it: "stream closed when nothing is pending" fails ; expect sat
(push) (declare-const so Bool) (assert (RI_batch 0 0 so 0)) (assert so) (assert (not (= so (> 0 0)))) (check-sat) (pop)
; -- with the repair (close the stream in the constructor when n == 0) the uniform invariant `sopen == (cnt > 0)` holds for n == 0 too
(push) (assert (not (= false (> 0 0)))) (check-sat) (pop)
; -- G5 (interference): two finishers both decrement, both then read Count()==0, both close: the second finds the stream closed ; expect sat
(push) (declare-const so Bool) (assert (= so false)) (declare-const cntRead Int) (assert (= cntRead 0)) (assert (not so)) (check-sat) (pop)
